//! The E1 checks: one profile (generator weights), deciding oracles, non-triviality rule and fixed
//! work per property (DESIGN.md §5).
#![allow(dead_code)]
use crate::exec::Outcome;
use crate::prog::{Case, Profile};

pub struct Check {
    pub id: &'static str,
    pub profile: Profile,
    /// oracles whose violation is reported under this property's id when found by this check;
    /// any other oracle that fires is reported under its own home property
    pub deciding: &'static [&'static str],
    pub rule: &'static str,
    pub nontrivial: fn(&Case, &Outcome) -> bool,
    pub quick: usize,
    pub thorough: usize,
    /// post-processing of generated cases (shape constraints of the profile)
    pub fixup: fn(&mut Case),
    /// a scenario-shaped generator used instead of the profile's free-form one
    pub template: Option<fn() -> proptest::strategy::BoxedStrategy<Case>>,
}

fn nofix(_: &mut Case) {}

const SAFETY: &[&str] = &["O-uaf", "O-acct", "O-tight", "O-slots"];

pub fn e1_check(id: &str) -> Option<Check> {
    let mut p = Profile::base("x");
    let c = match id {
        "C01" => {
            p.name = "uaf";
            p.w_recycle = 1;
            p.threads = (2, 5);
            p.w_hold = 2;
            p.outlive = 30;
            Check {
                id: "C01",
                profile: p,
                deciding: &["O-uaf", "O-acct"],
                rule: "cases from proptest strategies (program: 2-5 threads x 1-6 ops on 1-2 containers, both strategies, late threads, address reuse 30%; schedule: Rand/PCT, SC:M2 = 1:3). Non-trivial: a write's exchange fell inside a read's window, or a debt was paid by a writer, or the fallback/helping path ran, or a stale read was taken. Distinct = hash of (program, spec).",
                nontrivial: |_, o| o.stats.overlap_rw > 0 || o.stats.paid_by_writer > 0 || o.stats.fallback > 0 || o.stats.stale_reads > 0,
                quick: 60_000,
                thorough: 3_000_000,
                fixup: nofix,
                template: None,
            }
        }
        "C02" => {
            p.name = "acct";
            p.w_ginto = 3;
            p.w_gfrom = 1;
            p.w_cas = 4;
            p.w_rcu = 3;
            p.w_quiesce = 2;
            p.w_temp = 1;
            p.modes = (1, 0, 2);
            Check {
                id: "C02",
                profile: p,
                deciding: &["O-acct", "O-tight", "O-slots"],
                rule: "as C01 plus Guard::into_inner/from_inner, CAS success/failure, rcu retries, container consume/drop, Quiesce points (full accounting: strong == owners (+ owning guards), ownerless => destroyed, slots subset of live guards). Non-trivial: a slot was paid by a writer, or a helper replacement was rejected, or a CAS failed after interference, or a quiescent accounting ran with guards alive.",
                nontrivial: |_, o| o.stats.paid_by_writer > 0 || o.stats.help_rejected > 0 || o.stats.cas_interfered > 0 || o.hs.quiesce_checks > 0,
                quick: 60_000,
                thorough: 3_000_000,
                fixup: nofix,
                template: None,
            }
        }
        "C03" => {
            p.name = "lin";
            p.threads = (2, 4);
            p.reuse = 50;
            p.w_recycle = 3;
            p.w_stall = 6;
            p.w_load = 8;
            p.w_loadfull = 3;
            p.w_hold = 1;
            p.restore = 20;
            p.w_sendh = 2;
            p.w_aba = 1;
            p.modes = (1, 0, 2);
            Check {
                id: "C03",
                profile: p,
                deciding: &["O-lin"],
                rule: "2-4 threads mixing loads with store/swap/CAS/rcu, re-stores and A-B-A enabled, late threads with/without hb edge, mailboxes. Oracle: Wing-Gong linearizability of the per-container history (real-time order in SC mode, happens-before order in M2) + white-box window on the pointer word's modification order. Non-trivial: a load overlapped a write's exchange and >= 2 identities were observed by loads.",
                nontrivial: |_, o| o.hs.loads_overlapped > 0 && o.hs.distinct_ids_loaded >= 2,
                quick: 100_000,
                thorough: 3_000_000,
                fixup: nofix,
                template: None,
            }
        }
        "C04" => {
            p.name = "chain";
            p.w_store = 5;
            p.w_swap = 7;
            p.w_cas = 3;
            p.w_rcu = 3;
            p.w_load = 3;
            p.restore = 20;
            p.null = 12;
            p.w_aba = 4;
            p.modes = (1, 0, 2);
            Check {
                id: "C04",
                profile: p,
                deciding: &["O-chain", "O-lin", "O-acct", "O-cas", "O-rcu"],
                rule: "2-4 writer threads (swap/store/CAS/rcu) plus readers. Oracle: every write returns exactly the identity its exchange replaced in the pointer word's modification order (O-chain), history linearizable, every identity put in comes out once (end accounting). Non-trivial: two write operations on the same container overlapped.",
                nontrivial: |_, o| o.stats.writes_overlapped > 0,
                quick: 100_000,
                thorough: 2_000_000,
                fixup: nofix,
                template: None,
            }
        }
        "C05" => {
            p.name = "cas";
            p.reuse = 50;
            p.w_stall = 5;
            p.w_cas = 10;
            p.w_swap = 3;
            p.w_store = 3;
            p.w_load = 2;
            p.w_loadfull = 3;
            p.restore = 30;
            p.null = 15;
            p.w_aba = 4;
            p.modes = (1, 0, 2);
            Check {
                id: "C05",
                profile: p,
                deciding: &["O-cas", "O-lin", "O-chain", "O-rcu"],
                rule: "compare_and_swap with current in {just loaded, stale handle, never stored, null} in every accepted form (&T, Guard, &Guard, raw), new in {fresh, re-stored handle, null}; competitors change and restore the pointer (A-B-A). Oracle: success <=> result pointer-equal to current <=> the pointer word was written by this call; failed CAS releases the rejected new; linearizable. Non-trivial: a competing write landed between the internal load and the exchange, or a value was re-stored (A-B-A) in a case with CAS.",
                nontrivial: |_, o| (o.hs.cas_success + o.hs.cas_fail > 0) && (o.stats.cas_interfered > 0 || o.hs.restore_same > 0 || o.hs.aba_identity > 0),
                quick: 160_000,
                thorough: 2_000_000,
                fixup: nofix,
                template: None,
            }
        }
        "C06" => {
            p.name = "rcu";
            p.w_rcu = 10;
            p.w_swap = 2;
            p.w_store = 2;
            p.w_cas = 2;
            p.w_load = 3;
            p.rcu_nested = true;
            p.restore = 25;
            p.null = 15;
            p.w_aba = 5;
            p.modes = (1, 0, 2);
            Check {
                id: "C06",
                profile: p,
                deciding: &["O-rcu", "O-lin", "O-chain", "O-cas"],
                rule: "2-4 threads x rcu(bump) mixed with swap/store/CAS and readers; re-entrant closures (nested load/store/rcu on the same or another container). Oracle: returned value == argument of the installing attempt; installed on top of exactly that value in the modification order; #installs == #returned calls; discarded results destroyed at return and never loaded; linearizable. Non-trivial: at least one rcu attempt was discarded because of interference.",
                nontrivial: |_, o| o.hs.rcu_retries > 0,
                quick: 100_000,
                thorough: 2_000_000,
                fixup: nofix,
                template: None,
            }
        }
        "C07" => {
            p.name = "race";
            p.threads = (2, 5);
            p.modes = (0, 0, 1);
            p.reuse = 50;
            p.w_sendh = 3;
            p.w_sendg = 2;
            p.w_hderef = 3;
            p.w_gderef = 3;
            Check {
                id: "C07",
                profile: p,
                deciding: &["O-race"],
                rule: "C01/C03 programs in M2 (weak memory) only, address reuse in half the cases, handles/guards/returned values sent through mailboxes and dereferenced/dropped on other threads. Oracle: vector-clock race detector on the pointee payload (creator's write -> every read; every read -> destructor's write). Non-trivial: a value made by one program thread (not the setup thread, whose values are published by thread creation) was read through a handle, or destroyed, by another thread.",
                nontrivial: |_, o| o.hs.cross_thread_value > 0 || o.hs.cross_thread_destroy > 0,
                quick: 60_000,
                thorough: 3_000_000,
                fixup: nofix,
                template: None,
            }
        }
        "C08" => {
            p.name = "waitfree";
            p.threads = (2, 3);
            p.ops = (2, 6);
            p.w_load = 8;
            p.w_loadfull = 4;
            p.w_hold = 3;
            p.w_gdrop = 2;
            p.w_gderef = 1;
            p.w_ginto = 0;
            p.w_hderef = 0;
            p.w_hdrop = 1;
            p.w_store = 0;
            p.w_swap = 0;
            p.w_cas = 0;
            p.w_rcu = 0;
            p.w_sendh = 0;
            p.w_sendg = 0;
            p.late = 0;
            p.bequeath = 0;
            p.burst = true;
            p.freeze = 25;
            p.budget = 150_000;
            p.modes = (1, 0, 1);
            Check {
                id: "C08",
                profile: p,
                deciding: &["O-steps"],
                rule: "a designated reader (0..11 guards held, both strategies) performs load/load_full while an adversary completes k in {1,2,4} whole stores between any two reader steps (Burst), or while all other threads are frozen mid-operation at a generated step (Freeze). Oracle: own steps of every load on a warmed-up thread <= 4*slots+48. Non-trivial: a write completed inside a measured load that took the fallback or had its debt paid, or other threads were frozen mid-operation.",
                nontrivial: |_, o| o.stats.max_load_steps > 0 && ((o.stats.burst_writes_in_load > 0 && (o.hs.loads_fallback > 0 || o.stats.paid_by_writer > 0 || o.stats.confirm_failed > 0)) || o.stats.frozen_mid_op > 0),
                quick: 20_000,
                thorough: 1_000_000,
                fixup: |c| {
                    // thread 0 reads, every other thread writes until told to stop
                    let nc = c.prog.ncont;
                    for (i, t) in c.prog.threads.iter_mut().enumerate() {
                        if i > 0 {
                            t.ops = vec![crate::prog::Op::WriteLoop((i as u8) % nc, 40)];
                            t.after = None;
                        }
                    }
                    if let Some(f) = &mut c.spec.freeze {
                        f.keep = 0;
                        c.spec.policy = crate::rt::Policy::Rand { p: 64 };
                    }
                },
                template: None,
            }
        }
        "C09" => {
            p.name = "lockfree";
            p.threads = (2, 4);
            p.w_hold = 2;
            p.w_temp = 1;
            p.freeze = 100;
            p.modes = (2, 0, 1);
            p.budget = 30_000;
            Check {
                id: "C09",
                profile: p,
                deciding: &["O-steps"],
                rule: "random executions; at a generated step all threads but one are frozen (inside the read-intent window, inside another writer's debt walk, holding guards); the remaining thread completes 1-2 operations (store/swap/CAS/rcu/load/guard drop/container drop) alone. Oracle: each such operation finishes within the solo step bound; afterwards the frozen threads resume and all safety oracles run. Non-trivial: a frozen thread was mid-operation inside the crate and the solo thread completed an operation.",
                nontrivial: |_, o| o.stats.frozen_mid_op > 0 && o.stats.solo_ops > 0,
                quick: 40_000,
                thorough: 2_000_000,
                fixup: nofix,
                template: None,
            }
        }
        "C10" => {
            p.name = "guards";
            p.threads = (2, 5);
            p.w_hold = 4;
            p.w_sendg = 4;
            p.w_gderef = 4;
            p.w_temp = 2;
            p.w_map = 1;
            p.rcu_nested = true;
            p.bequeath = 60;
            p.outlive = 70;
            p.late = 50;
            Check {
                id: "C10",
                profile: p,
                deciding: &["O-guard", "O-uaf", "O-acct", "O-slots"],
                rule: "Hold(1..11) guards (more than the fast slots), nested loads in rcu closures, guards sent to other threads, creating thread exits and a new thread re-claims the node while the guard's debt is still in it, containers dropped/consumed before the guards. Oracle: identity through a guard at creation == at every deref (any thread) == at drop; no UAF; exact accounting; slots clean. Non-trivial: a guard outlived its container or its creating thread, or was dropped on a foreign thread, or more than 8 guards were held, while a writer paid at least one debt.",
                nontrivial: |_, o| (o.hs.guards_outlive_container > 0 || o.hs.guards_outlive_thread > 0 || o.hs.foreign_guard_drop > 0 || o.hs.max_guards_held > 8) && o.stats.paid_by_writer > 0,
                quick: 50_000,
                thorough: 2_000_000,
                fixup: nofix,
                template: None,
            }
        }
        "C11" => {
            p.name = "churn";
            p.threads = (3, 6);
            p.ops = (1, 4);
            p.late = 80;
            p.dtor = 30;
            p.bequeath = 30;
            p.modes = (2, 0, 1);
            Check {
                id: "C11",
                profile: p,
                deciding: &["O-nodes", "O-uaf", "O-acct", "O-tight", "O-slots", "O-total", "O-lin", "O-chain", "O-guard", "O-race"],
                rule: "generations of threads (start after another thread exited, with or without hb edge), writers walking nodes while owners exit or nodes are re-claimed, operations from thread-local destructors (temporary node). Oracle: node ownership exclusive (claims/slot claims/read intents only by the owner), all nodes released at the end, in SC mode #nodes <= peak owners + acquisitions overlapping a write/exit/acquisition; all safety oracles. Non-trivial: a node was re-claimed by a later thread.",
                nontrivial: |_, o| o.stats.node_reclaimed > 0,
                quick: 40_000,
                thorough: 1_500_000,
                fixup: |c| {
                    // a third of the cases: sequential generations under interleaving semantics
                    // (each thread starts after the previous one has exited, with a happens-before
                    // edge, the finalizer stays idle until the end): every acquisition is
                    // quiescent, so the space bound must hold with no allowance at all
                    if c.spec.seed % 3 == 0 {
                        c.spec.mode = crate::rt::Mode::SC;
                        c.spec.stale = 0;
                        c.spec.freeze = None;
                        c.prog.threads[0].ops.clear();
                        for (i, t) in c.prog.threads.iter_mut().enumerate() {
                            t.after = if i >= 2 { Some((i as u8 - 1, true)) } else { None };
                            t.bequeath = false;
                            t.ops.retain(|o| !matches!(o, crate::prog::Op::SendGuard(..) | crate::prog::Op::SendHandle(..) | crate::prog::Op::Quiesce));
                        }
                    }
                },
                template: None,
            }
        }
        "C12" => {
            p.name = "isolation";
            p.w_recycle = 4;
            p.w_stall = 6;
            p.reuse = 60;
            p.conts = (2, 3);
            p.threads = (2, 4);
            p.restore = 30;
            p.nofast = 60;
            p.w_hold = 2;
            p.w_aba = 1;
            p.types = 50;
            Check {
                id: "C12",
                profile: p,
                deciding: &["O-lin", "O-chain", "O-acct", "O-type"],
                rule: "2-3 containers, one value stored in several containers / twice in one, readers forced onto the fallback (60% fallback-only strategy) while writers to other containers walk their node; in half of the cases the containers are of two (simulated) pointee types and no value of one type is ever offered to a container of the other. Oracle: per-container linearizability with provenance (a value returned from X was stored in X), exact accounting, no reference count of a value of one pointee type touched by an operation on a container of another type. Non-trivial: a writer to X examined a node whose owner had a read intent for another container, or one value was stored in two containers.",
                nontrivial: |_, o| o.stats.help_other_cont > 0 || o.hs.shared_value_conts > 0 || o.stats.foreign_pay_unconfirmed > 0,
                quick: 100_000,
                thorough: 2_000_000,
                fixup: nofix,
                template: None,
            }
        }
        "C13" => {
            p.name = "total";
            p.w_setgen = 5;
            p.w_hold = 2;
            p.nofast = 60;
            p.rcu_nested = true;
            Check {
                id: "C13",
                profile: p,
                deciding: &["O-total", "O-lin", "O-acct", "O-slots", "O-nodes"],
                rule: "SetGeneration(usize::MAX-3-4j), j in 0..6, before fallback loads (8+ guards or fallback-only strategy), with and without a concurrent helping writer, followed by ordinary operations. Oracle: no panic/abort escapes a crate call; loads around the wrap are linearizable; afterwards accounting/slots/nodes clean. Non-trivial: the generation counter wrapped during a load in the case.",
                nontrivial: |_, o| o.stats.gen_wrapped > 0,
                quick: 30_000,
                thorough: 1_000_000,
                fixup: nofix,
                template: None,
            }
        }
        "C13nest" => {
            p.name = "nested-wrap";
            Check {
                id: "C13",
                profile: p,
                deciding: &["O-total", "O-lin", "O-chain", "O-acct", "O-slots", "O-nodes", "O-uaf", "O-guard"],
                rule: "second part of C13 (scenario-shaped generator, see prog::nestwrap_strategy): the generation counter of a writer thread wraps inside a nested load (the writer loads on behalf of the readers it helps) while another writer has been parked, since the first transaction on that thread's node, right before the compare-exchange that hands its replacement over; 2-3 readers of the second container inside helping transactions; operation kinds, counts, the parking point and the release point are random. Oracle: as C13 plus provenance (a load of container 1 never returns a value of container 0). Non-trivial: the counter wrapped inside a nested load and the stalled writer was released afterwards.",
                nontrivial: |_, o| o.stats.gen_wrapped > 0 && o.stats.stall_woken > 0,
                quick: 60_000,
                thorough: 2_000_000,
                fixup: nofix,
                template: Some(crate::prog::nestwrap_strategy),
            }
        }
        "C16" => {
            p.name = "cache";
            p.w_cache = 10;
            p.w_store = 6;
            p.w_swap = 2;
            p.restore = 25;
            p.null = 10;
            p.w_sendh = 3;
            Check {
                id: "C16",
                profile: p,
                deciding: &["O-fresh-hb"],
                rule: "caches on 1-4 threads, stores on others (fresh, same again, A-B-A, None), completions handed over through mailboxes. Oracle: Cache::load returns an identity stored in the container at a modification-order position not before the cache's previous result nor before the newest write whose completion happens-before the call. Non-trivial: a cache observed a change.",
                nontrivial: |_, o| o.hs.cache_changes > 0,
                quick: 40_000,
                thorough: 1_500_000,
                fixup: nofix,
                template: None,
            }
        }
        "C17" => {
            p.name = "access";
            p.w_map = 8;
            p.w_gderef = 5;
            p.w_gdrop = 3;
            Check {
                id: "C17",
                profile: p,
                deciding: &["O-guard", "O-lin", "O-uaf"],
                rule: "projection guards (Map over the container) held across concurrent stores and dereferenced later. Oracle: identity through the projected guard is constant; the snapshot of a live guard is never destroyed (O-uaf, also after the guard moved to another thread and its origin exited); loads linearizable. Non-trivial: a projected guard was held while a write overlapped.",
                nontrivial: |_, o| o.hs.map_guards > 0 && o.stats.overlap_rw + o.stats.writes_overlapped > 0,
                quick: 20_000,
                thorough: 500_000,
                fixup: nofix,
                template: None,
            }
        }
        "C18" => {
            p.name = "panic";
            p.w_rcu = 8;
            p.rcu_panic = true;
            p.w_panicky = 2;
            p.w_hold = 2;
            p.w_quiesce = 1;
            p.panicky_cases = 50;
            p.modes = (1, 0, 1);
            Check {
                id: "C18",
                profile: p,
                deciding: &["O-panic", "O-acct", "O-tight", "O-slots", "O-lin"],
                rule: "rcu closure panics on attempt k in 1..3 (retries forced by interference) and/or pointee destructors panic (wherever the last reference is released: single marked values, or in half of the cases 15/30/60% of all values), with guards held and concurrent readers/writers. Oracle: after catch_unwind the container holds a legitimately stored identity (unchanged for rcu panics), accounting exact, slots clean, later operations linearizable. Non-trivial: an injected panic fired.",
                nontrivial: |_, o| o.hs.panics_injected > 0 || o.hs.panics_in_writer > 0 || o.hs.panics_in_load > 0 || o.hs.panics_in_harness > 0,
                quick: 120_000,
                thorough: 1_500_000,
                fixup: nofix,
                template: None,
            }
        }
        // exploratory profile (not registered in MANIFEST): operations from thread-local
        // destructors (temporary nodes) on the fallback path under thread churn, two containers
        "C11dtor" => {
            p.name = "dtor-storm";
            p.threads = (4, 6);
            p.ops = (1, 3);
            p.conts = (2, 2);
            p.late = 30;
            p.dtor = 100;
            p.nofast = 100;
            p.bequeath = 0;
            p.outlive = 0;
            p.reuse = 0;
            p.w_load = 4;
            p.w_store = 8;
            p.w_swap = 2;
            p.w_cas = 0;
            p.w_rcu = 0;
            p.w_hold = 0;
            p.w_sendh = 0;
            p.w_sendg = 0;
            p.w_stall = 6;
            p.modes = (1, 0, 0);
            Check {
                id: "C11",
                profile: p,
                deciding: &["O-nodes", "O-uaf", "O-acct", "O-tight", "O-slots", "O-total", "O-lin", "O-chain", "O-guard", "O-race"],
                rule: "second part of C11 (found F7): 4-6 threads on the fallback-only strategy, two containers, writers storing, every non-finalizer thread performs three loads from a thread-local destructor after the crate's own thread-local is gone (temporary nodes, which all start at the same generation), late threads, role-triggered Stall schedules; interleaving semantics. Oracle: provenance/linearizability of those loads, node ownership. Non-trivial: a destructor-time operation ran and a node was re-claimed.",
                nontrivial: |_, o| o.hs.dtor_ops > 0 && o.stats.node_reclaimed > 0,
                quick: 120_000,
                thorough: 5_000_000,
                fixup: |c| {
                    // destructor operations: loads of both containers
                    for (i, t) in c.prog.threads.iter_mut().enumerate() {
                        if i > 0 {
                            t.dtor_ops = vec![crate::prog::Op::Load(0), crate::prog::Op::Load(1), crate::prog::Op::Load((i % 2) as u8)];
                        }
                    }
                },
                template: None,
            }
        }
        // exploratory (not registered): the destructor-storm profile under the weak memory model
        "X12" => {
            let mut c = e1_check("C11dtor").unwrap();
            c.profile.modes = (0, 0, 1);
            c.quick = 300_000;
            c
        }
        _ => return None,
    };
    Some(c)
}

pub const E1_IDS: &[&str] = &["C01", "C02", "C03", "C04", "C05", "C06", "C07", "C08", "C09", "C10", "C11", "C12", "C13", "C16", "C17", "C18"];
