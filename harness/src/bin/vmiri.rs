//! Sanitizer back-end for the sequential generators: runs N generated cases of one E2 engine on the
//! real Arc/Rc/Weak under Miri (`cargo +nightly miri run --bin vmiri -- <part> <n> <seed>`), which
//! turns undefined behaviour that does not change any observable count (dangling references,
//! aliasing violations, out-of-bounds, invalid frees) into a failure. Prints every case before it
//! runs it, so the last printed case is the one that failed.
use proptest::strategy::{Strategy, ValueTree};
use proptest::test_runner::{Config, RngAlgorithm, TestRng, TestRunner};
use vcheck::{accessseq, cacheseq, kinds, mixseq, seq, serdechk};

fn run<C: serde::Serialize + std::fmt::Debug, St: Strategy<Value = C>>(part: &str, strat: St, n: usize, seed: u64, f: impl Fn(&C) -> Result<(), String>) -> i32 {
    let mut sb = [0u8; 32];
    sb[..8].copy_from_slice(&seed.to_le_bytes());
    sb[9] = 0x77;
    let mut runner = TestRunner::new_with_rng(Config { failure_persistence: None, ..Config::default() }, TestRng::from_seed(RngAlgorithm::ChaCha, &sb));
    for i in 0..n {
        let c = strat.new_tree(&mut runner).unwrap().current();
        println!("CASE {} {} {}", part, i, serde_json::to_string(&c).unwrap());
        if let Err(m) = f(&c) {
            println!("ORACLE {}", m);
            return 1;
        }
    }
    println!("DONE {} {}", part, n);
    0
}

fn main() {
    let a: Vec<String> = std::env::args().collect();
    let part = a.get(1).map(|s| s.as_str()).unwrap_or("C14seq");
    let n: usize = a.get(2).and_then(|s| s.parse().ok()).unwrap_or(10);
    let seed: u64 = a.get(3).and_then(|s| s.parse().ok()).unwrap_or(1);
    let code = match part {
        "C14seq" => run(part, seq::prog_strategy(), n, seed, |p| seq::run_prog(p).map(|_| ())),
        "C15kinds" => run(part, kinds::case_strategy(), n, seed, kinds::run_case),
        "C01mix" | "C02mix" | "C12mix" | "C15mix" => run(part, mixseq::case_strategy(), n, seed, |c| mixseq::run_case(c).map(|_| ())),
        "C16seq" => run(part, cacheseq::case_strategy(), n, seed, |c| cacheseq::run_case(c).map(|_| ())),
        "C17seq" => run(part, accessseq::case_strategy(), n, seed, |c| accessseq::run_case(c).map(|_| ())),
        "C20serde" => run(part, serdechk::case_strategy(), n, seed, serdechk::run_case),
        _ => 2,
    };
    // return instead of process::exit: Miri checks for leaked memory only when main returns
    if code != 0 {
        std::process::exit(code);
    }
}
