//! E2 / C14: model-based sequential testing of the public API on the real `Arc`, for the default
//! strategy, the fallback-only strategy and the lock-based reference strategy, both container
//! flavours (`Arc<T>` and `Option<Arc<T>>`), against a plain-variable model with exact counts.
#![allow(deprecated, dead_code)]
use arc_swap::strategy::test_strategies::FillFastSlots;
use arc_swap::strategy::{CaS, DefaultStrategy, Strategy};
use arc_swap::{ArcSwapAny, Guard, RefCnt};
use proptest::prelude::*;
use proptest::strategy::Strategy as _;
use serde::{Deserialize, Serialize};
use std::collections::BTreeMap;
use std::sync::atomic::{AtomicUsize, Ordering};
use std::sync::{Arc, RwLock, Weak};

pub struct Val {
    pub id: usize,
    drops: Arc<AtomicUsize>,
}
impl Drop for Val {
    fn drop(&mut self) {
        self.drops.fetch_add(1, Ordering::SeqCst);
    }
}

pub const POOL: usize = 5;

#[derive(Clone, Debug, PartialEq, Eq, Serialize, Deserialize)]
pub enum SVal {
    Pool(u8),
    Fresh,
    Null,
}

#[derive(Clone, Copy, Debug, PartialEq, Eq, Serialize, Deserialize)]
pub enum SForm {
    Ref,
    Raw,
    Guard,
    GuardRef,
}

#[derive(Clone, Debug, PartialEq, Eq, Serialize, Deserialize)]
pub enum SCur {
    /// what the container stores right now
    Stored,
    Handle(u8),
    Val(SVal),
}

#[derive(Clone, Debug, PartialEq, Eq, Serialize, Deserialize)]
pub enum SOp {
    /// constructor: 0 = new, 1 = from_pointee, 2 = empty (Option flavour) / default path
    New(u8, SVal),
    Load(u8),
    LoadFull(u8),
    GuardDrop(u8),
    GuardIntoInner(u8),
    GuardFromInner(u8),
    HandleDrop(u8),
    Store(u8, SVal),
    Swap(u8, SVal),
    Cas(u8, SCur, SForm, SVal),
    Rcu(u8, SVal),
    IntoInner(u8),
    DropCont(u8),
}

#[derive(Clone, Debug, PartialEq, Eq, Serialize, Deserialize)]
pub struct SProg {
    pub option_flavour: bool,
    pub ops: Vec<SOp>,
}

fn sval() -> impl proptest::strategy::Strategy<Value = SVal> {
    prop_oneof![5 => (0u8..POOL as u8).prop_map(SVal::Pool), 2 => Just(SVal::Fresh), 1 => Just(SVal::Null)]
}

pub fn prog_strategy() -> impl proptest::strategy::Strategy<Value = SProg> {
    let form = prop_oneof![Just(SForm::Ref), Just(SForm::Raw), Just(SForm::Guard), Just(SForm::GuardRef)];
    let cur = prop_oneof![3 => Just(SCur::Stored), 2 => any::<u8>().prop_map(SCur::Handle), 2 => sval().prop_map(SCur::Val)];
    let c = any::<u8>();
    let op = prop_oneof![
        2 => (0u8..3, sval()).prop_map(|(k, v)| SOp::New(k, v)),
        8 => c.clone().prop_map(SOp::Load),
        3 => c.clone().prop_map(SOp::LoadFull),
        4 => any::<u8>().prop_map(SOp::GuardDrop),
        2 => any::<u8>().prop_map(SOp::GuardIntoInner),
        1 => any::<u8>().prop_map(SOp::GuardFromInner),
        3 => any::<u8>().prop_map(SOp::HandleDrop),
        4 => (c.clone(), sval()).prop_map(|(c, v)| SOp::Store(c, v)),
        4 => (c.clone(), sval()).prop_map(|(c, v)| SOp::Swap(c, v)),
        5 => (c.clone(), cur, form, sval()).prop_map(|(c, cu, f, v)| SOp::Cas(c, cu, f, v)),
        3 => (c.clone(), sval()).prop_map(|(c, v)| SOp::Rcu(c, v)),
        1 => c.clone().prop_map(SOp::IntoInner),
        1 => c.clone().prop_map(SOp::DropCont),
    ];
    (any::<bool>(), proptest::collection::vec(op, 1..60)).prop_map(|(option_flavour, mut ops)| {
        ops.insert(0, SOp::New(0, SVal::Pool(0)));
        SProg { option_flavour, ops }
    })
}

/// pointer kinds of the two container flavours
pub trait Kind: RefCnt<Base = Val> + Clone {
    const NULLABLE: bool;
    fn make(v: Option<Arc<Val>>) -> Self;
    fn ident(&self) -> Option<usize>;
    fn from_pointee<S: Strategy<Self> + Default>(v: Val) -> ArcSwapAny<Self, S>;
    fn empty<S: Strategy<Self> + Default>() -> Option<ArcSwapAny<Self, S>>;
    fn arc(&self) -> Option<Arc<Val>>;
}
impl Kind for Arc<Val> {
    const NULLABLE: bool = false;
    fn make(v: Option<Arc<Val>>) -> Self {
        v.unwrap()
    }
    fn ident(&self) -> Option<usize> {
        Some(self.id)
    }
    fn from_pointee<S: Strategy<Self> + Default>(v: Val) -> ArcSwapAny<Self, S> {
        ArcSwapAny::<Arc<Val>, S>::from_pointee(v)
    }
    fn empty<S: Strategy<Self> + Default>() -> Option<ArcSwapAny<Self, S>> {
        None
    }
    fn arc(&self) -> Option<Arc<Val>> {
        Some(self.clone())
    }
}
impl Kind for Option<Arc<Val>> {
    const NULLABLE: bool = true;
    fn make(v: Option<Arc<Val>>) -> Self {
        v
    }
    fn ident(&self) -> Option<usize> {
        self.as_ref().map(|a| a.id)
    }
    fn from_pointee<S: Strategy<Self> + Default>(v: Val) -> ArcSwapAny<Self, S> {
        ArcSwapAny::<Option<Arc<Val>>, S>::from_pointee(v)
    }
    fn empty<S: Strategy<Self> + Default>() -> Option<ArcSwapAny<Self, S>> {
        Some(ArcSwapAny::empty())
    }
    fn arc(&self) -> Option<Arc<Val>> {
        self.clone()
    }
}

/// the guard forms of compare_and_swap exist for the default strategy only
pub trait SStrat<K: Kind>: Strategy<K> + CaS<K> + Default {
    const NAME: &'static str;
    fn cas_guard(c: &ArcSwapAny<K, Self>, cur: Guard<K, Self>, new: K) -> Guard<K, Self>;
    fn cas_guard_ref(c: &ArcSwapAny<K, Self>, cur: &Guard<K, Self>, new: K) -> Guard<K, Self>;
}
impl<K: Kind> SStrat<K> for DefaultStrategy {
    const NAME: &'static str = "default";
    fn cas_guard(c: &ArcSwapAny<K, Self>, cur: Guard<K, Self>, new: K) -> Guard<K, Self> {
        c.compare_and_swap(cur, new)
    }
    fn cas_guard_ref(c: &ArcSwapAny<K, Self>, cur: &Guard<K, Self>, new: K) -> Guard<K, Self> {
        c.compare_and_swap(cur, new)
    }
}
impl<K: Kind> SStrat<K> for FillFastSlots {
    const NAME: &'static str = "fallback-only";
    fn cas_guard(c: &ArcSwapAny<K, Self>, cur: Guard<K, Self>, new: K) -> Guard<K, Self> {
        c.compare_and_swap(&*cur, new)
    }
    fn cas_guard_ref(c: &ArcSwapAny<K, Self>, cur: &Guard<K, Self>, new: K) -> Guard<K, Self> {
        c.compare_and_swap(&**cur, new)
    }
}
impl<K: Kind> SStrat<K> for RwLock<()> {
    const NAME: &'static str = "rwlock";
    fn cas_guard(c: &ArcSwapAny<K, Self>, cur: Guard<K, Self>, new: K) -> Guard<K, Self> {
        c.compare_and_swap(&*cur, new)
    }
    fn cas_guard_ref(c: &ArcSwapAny<K, Self>, cur: &Guard<K, Self>, new: K) -> Guard<K, Self> {
        c.compare_and_swap(&**cur, new)
    }
}

struct Tracked {
    keep: Option<Arc<Val>>,
    weak: Weak<Val>,
    owners: usize,
    guards: usize,
    drops: Arc<AtomicUsize>,
}

#[derive(Default, Clone, Debug, Serialize, Deserialize)]
pub struct SeqStats {
    pub guard_across_write: usize,
    pub rcu: usize,
    pub cas_ok: usize,
    pub cas_fail: usize,
    pub nulls: usize,
    pub max_conts: usize,
    pub max_guards: usize,
    pub fresh_destroyed: usize,
    pub steps: usize,
}

struct World<K: Kind, S: SStrat<K>> {
    vals: BTreeMap<usize, Tracked>,
    conts: Vec<Option<(ArcSwapAny<K, S>, Option<usize>)>>,
    handles: Vec<(K, Option<usize>)>,
    guards: Vec<(Guard<K, S>, Option<usize>, usize)>, // guard, identity, container index
    next_fresh: usize,
    stats: SeqStats,
}

fn sel(i: u8, len: usize) -> usize {
    (i as usize * len) >> 8
}

impl<K: Kind, S: SStrat<K>> World<K, S> {
    fn new() -> Self {
        let mut vals = BTreeMap::new();
        for id in 0..POOL {
            let drops = Arc::new(AtomicUsize::new(0));
            let a = Arc::new(Val { id, drops: drops.clone() });
            vals.insert(id, Tracked { weak: Arc::downgrade(&a), keep: Some(a), owners: 0, guards: 0, drops });
        }
        World { vals, conts: Vec::new(), handles: Vec::new(), guards: Vec::new(), next_fresh: 100, stats: SeqStats::default() }
    }

    /// produce a value of kind K (the returned K is an owner: counted when it is put somewhere)
    fn value(&mut self, v: &SVal) -> (K, Option<usize>) {
        match v {
            SVal::Null if K::NULLABLE => {
                self.stats.nulls += 1;
                (K::make(None), None)
            }
            SVal::Fresh => {
                let id = self.next_fresh;
                self.next_fresh += 1;
                let drops = Arc::new(AtomicUsize::new(0));
                let a = Arc::new(Val { id, drops: drops.clone() });
                self.vals.insert(id, Tracked { weak: Arc::downgrade(&a), keep: None, owners: 0, guards: 0, drops });
                (K::make(Some(a)), Some(id))
            }
            SVal::Pool(i) => {
                let id = *i as usize % POOL;
                (K::make(self.vals[&id].keep.clone()), Some(id))
            }
            SVal::Null => (K::make(self.vals[&0].keep.clone()), Some(0)),
        }
    }
    fn own(&mut self, id: Option<usize>, d: isize) {
        if let Some(id) = id {
            let t = self.vals.get_mut(&id).unwrap();
            t.owners = (t.owners as isize + d) as usize;
        }
    }
    fn gd(&mut self, id: Option<usize>, d: isize) {
        if let Some(id) = id {
            let t = self.vals.get_mut(&id).unwrap();
            t.guards = (t.guards as isize + d) as usize;
        }
    }

    fn live_cont(&self, c: u8) -> Option<usize> {
        let live: Vec<usize> = (0..self.conts.len()).filter(|&i| self.conts[i].is_some()).collect();
        if live.is_empty() {
            None
        } else {
            Some(live[sel(c, live.len())])
        }
    }

    fn check(&mut self, what: &str) -> Result<(), String> {
        self.stats.steps += 1;
        self.stats.max_conts = self.stats.max_conts.max(self.conts.iter().filter(|c| c.is_some()).count());
        self.stats.max_guards = self.stats.max_guards.max(self.guards.len());
        for (id, t) in self.vals.iter() {
            let strong = t.weak.strong_count();
            let base = t.keep.is_some() as usize + t.owners;
            if strong < base || strong > base + t.guards {
                return Err(format!("[{}] after {}: value {} has strong count {} but {} owner(s) (+{} live guards)", S::NAME, what, id, strong, base, t.guards));
            }
            let d = t.drops.load(Ordering::SeqCst);
            // destroyed exactly once, exactly when nobody needs it: not while an owner *or a guard*
            // exists (a guard that only borrows keeps the strong count at the owners' number, so
            // the count alone does not show a destruction under it), not later than the last one
            if d > 1 || (d == 1 && strong != 0) || (d == 1 && base + t.guards > 0) || (base + t.guards == 0 && d != 1) {
                return Err(format!("[{}] after {}: value {} destroyed {} times with strong count {} and {} owners/{} guards", S::NAME, what, id, d, strong, base, t.guards));
            }
        }
        // every guard still denotes what it denoted when created
        for (g, id, _) in &self.guards {
            if g.ident() != *id {
                return Err(format!("[{}] after {}: a guard for {:?} now denotes {:?}", S::NAME, what, id, g.ident()));
            }
        }
        Ok(())
    }

    fn step(&mut self, op: &SOp) -> Result<(), String> {
        match op {
            SOp::New(k, v) => {
                if self.conts.iter().filter(|c| c.is_some()).count() >= 3 {
                    return Ok(());
                }
                if *k == 1 && *v == SVal::Fresh {
                    // from_pointee allocates the Arc itself
                    let id = self.next_fresh;
                    self.next_fresh += 1;
                    let drops = Arc::new(AtomicUsize::new(0));
                    let cont: ArcSwapAny<K, S> = K::from_pointee(Val { id, drops: drops.clone() });
                    let h = cont.load_full();
                    let a = h.arc().ok_or_else(|| format!("[{}] from_pointee produced an empty container", S::NAME))?;
                    if a.id != id {
                        return Err(format!("[{}] from_pointee holds {} instead of {}", S::NAME, a.id, id));
                    }
                    self.vals.insert(id, Tracked { weak: Arc::downgrade(&a), keep: None, owners: 1, guards: 0, drops });
                    drop(a);
                    drop(h);
                    self.conts.push(Some((cont, Some(id))));
                    return Ok(());
                }
                if *k == 2 && *v == SVal::Null {
                    if let Some(cont) = K::empty::<S>() {
                        if cont.load().ident().is_some() {
                            return Err(format!("[{}] empty() is not empty", S::NAME));
                        }
                        self.conts.push(Some((cont, None)));
                        return Ok(());
                    }
                }
                let (val, id) = self.value(v);
                let cont: ArcSwapAny<K, S> = match k {
                    0 => ArcSwapAny::new(val),
                    1 => ArcSwapAny::from(val),
                    _ => ArcSwapAny::with_strategy(val, S::default()),
                };
                self.own(id, 1);
                self.conts.push(Some((cont, id)));
            }
            SOp::Load(c) => {
                let Some(ci) = self.live_cont(*c) else { return Ok(()) };
                let (cont, cur) = self.conts[ci].as_ref().unwrap();
                let g = cont.load();
                if g.ident() != *cur {
                    return Err(format!("[{}] load returned {:?}, model holds {:?}", S::NAME, g.ident(), cur));
                }
                let cur = *cur;
                self.gd(cur, 1);
                self.guards.push((g, cur, ci));
            }
            SOp::LoadFull(c) => {
                let Some(ci) = self.live_cont(*c) else { return Ok(()) };
                let (cont, cur) = self.conts[ci].as_ref().unwrap();
                let h = cont.load_full();
                if h.ident() != *cur {
                    return Err(format!("[{}] load_full returned {:?}, model holds {:?}", S::NAME, h.ident(), cur));
                }
                let cur = *cur;
                self.own(cur, 1);
                self.handles.push((h, cur));
            }
            SOp::GuardDrop(i) => {
                if !self.guards.is_empty() {
                    let k = sel(*i, self.guards.len());
                    let (g, id, _) = self.guards.swap_remove(k);
                    drop(g);
                    self.gd(id, -1);
                }
            }
            SOp::GuardIntoInner(i) => {
                if !self.guards.is_empty() {
                    let k = sel(*i, self.guards.len());
                    let (g, id, _) = self.guards.swap_remove(k);
                    let h = Guard::into_inner(g);
                    if h.ident() != id {
                        return Err(format!("[{}] Guard::into_inner gave {:?} for a guard on {:?}", S::NAME, h.ident(), id));
                    }
                    self.gd(id, -1);
                    self.own(id, 1);
                    self.handles.push((h, id));
                }
            }
            SOp::GuardFromInner(i) => {
                if !self.handles.is_empty() {
                    let k = sel(*i, self.handles.len());
                    let (h, id) = self.handles.swap_remove(k);
                    let g: Guard<K, S> = Guard::from_inner(h);
                    self.guards_owning_push(g, id);
                }
            }
            SOp::HandleDrop(i) => {
                if !self.handles.is_empty() {
                    let k = sel(*i, self.handles.len());
                    let (h, id) = self.handles.swap_remove(k);
                    drop(h);
                    self.own(id, -1);
                }
            }
            SOp::Store(c, v) | SOp::Swap(c, v) => {
                let Some(ci) = self.live_cont(*c) else { return Ok(()) };
                let (val, id) = self.value(v);
                if self.guards.iter().any(|(_, _, gc)| *gc == ci) {
                    self.stats.guard_across_write += 1;
                }
                let old = self.conts[ci].as_ref().unwrap().1;
                if matches!(op, SOp::Store(..)) {
                    self.conts[ci].as_ref().unwrap().0.store(val);
                    self.own(old, -1);
                } else {
                    let prev = self.conts[ci].as_ref().unwrap().0.swap(val);
                    if prev.ident() != old {
                        return Err(format!("[{}] swap returned {:?}, model held {:?}", S::NAME, prev.ident(), old));
                    }
                    self.handles.push((prev, old));
                }
                self.own(id, 1);
                self.conts[ci].as_mut().unwrap().1 = id;
            }
            SOp::Cas(c, cur, form, v) => {
                let Some(ci) = self.live_cont(*c) else { return Ok(()) };
                let stored = self.conts[ci].as_ref().unwrap().1;
                let (cur_k, cur_id): (K, Option<usize>) = match cur {
                    SCur::Stored => {
                        let h = self.conts[ci].as_ref().unwrap().0.load_full();
                        (h, stored)
                    }
                    SCur::Handle(i) if !self.handles.is_empty() => {
                        let (h, id) = &self.handles[sel(*i, self.handles.len())];
                        (h.clone(), *id)
                    }
                    SCur::Handle(_) => self.value(&SVal::Pool(1)),
                    SCur::Val(v) => self.value(v),
                };
                // cur_k is a temporary owner
                self.own(cur_id, 1);
                let (new, new_id) = self.value(v);
                if self.guards.iter().any(|(_, _, gc)| *gc == ci) {
                    self.stats.guard_across_write += 1;
                }
                let cont = &self.conts[ci].as_ref().unwrap().0;
                let prev = match form {
                    SForm::Ref => cont.compare_and_swap(&cur_k, new),
                    SForm::Raw => cont.compare_and_swap(K::as_ptr(&cur_k) as *const Val, new),
                    SForm::Guard => S::cas_guard(cont, Guard::from_inner(cur_k.clone()), new),
                    SForm::GuardRef => {
                        let g = Guard::from_inner(cur_k.clone());
                        S::cas_guard_ref(cont, &g, new)
                    }
                };
                if prev.ident() != stored {
                    return Err(format!("[{}] compare_and_swap({:?} form {:?}) returned {:?}, model held {:?}", S::NAME, cur_id, form, prev.ident(), stored));
                }
                let success = cur_id == stored;
                let ptr_eq = K::as_ptr(&prev) == K::as_ptr(&cur_k);
                if success != ptr_eq {
                    return Err(format!("[{}] compare_and_swap: result pointer-equal to current = {}, model says success = {}", S::NAME, ptr_eq, success));
                }
                if success {
                    self.stats.cas_ok += 1;
                    self.own(stored, -1);
                    self.own(new_id, 1);
                    self.conts[ci].as_mut().unwrap().1 = new_id;
                } else {
                    self.stats.cas_fail += 1;
                }
                // the returned guard denotes the previous value
                self.gd(stored, 1);
                self.guards.push((prev, stored, usize::MAX));
                drop(cur_k);
                self.own(cur_id, -1);
                // after a write the container must hold what the model says
                let now = self.conts[ci].as_ref().unwrap().0.load_full();
                if now.ident() != self.conts[ci].as_ref().unwrap().1 {
                    return Err(format!("[{}] after compare_and_swap the container holds {:?}, model {:?}", S::NAME, now.ident(), self.conts[ci].as_ref().unwrap().1));
                }
            }
            SOp::Rcu(c, v) => {
                let Some(ci) = self.live_cont(*c) else { return Ok(()) };
                let stored = self.conts[ci].as_ref().unwrap().1;
                let (new, new_id) = self.value(v);
                self.stats.rcu += 1;
                let mut calls = 0;
                let mut seen = None;
                let cont = &self.conts[ci].as_ref().unwrap().0;
                let prev = cont.rcu(|cur: &K| {
                    calls += 1;
                    seen = Some(cur.ident());
                    new.clone()
                });
                drop(new);
                if calls != 1 || seen != Some(stored) || prev.ident() != stored {
                    return Err(format!("[{}] rcu: closure called {} times with {:?}, returned {:?}, model held {:?}", S::NAME, calls, seen, prev.ident(), stored));
                }
                self.handles.push((prev, stored));
                self.own(new_id, 1);
                self.conts[ci].as_mut().unwrap().1 = new_id;
            }
            SOp::IntoInner(c) | SOp::DropCont(c) => {
                let Some(ci) = self.live_cont(*c) else { return Ok(()) };
                let (cont, cur) = self.conts[ci].take().unwrap();
                if self.guards.iter().any(|(_, _, gc)| *gc == ci) {
                    self.stats.guard_across_write += 1;
                }
                if matches!(op, SOp::IntoInner(_)) {
                    let v = cont.into_inner();
                    if v.ident() != cur {
                        return Err(format!("[{}] into_inner returned {:?}, model held {:?}", S::NAME, v.ident(), cur));
                    }
                    self.handles.push((v, cur));
                } else {
                    drop(cont);
                    self.own(cur, -1);
                }
            }
        }
        Ok(())
    }

    fn guards_owning_push(&mut self, g: Guard<K, S>, id: Option<usize>) {
        // a guard made by from_inner owns one reference: model it as owner -1, guard +1 with the
        // count allowed anywhere in [owners, owners + guards]
        self.own(id, -1);
        self.gd(id, 1);
        self.guards.push((g, id, usize::MAX));
    }

    fn finish(&mut self) -> Result<SeqStats, String> {
        // drop guards, handles, containers; afterwards only the pool owns anything
        while let Some((g, id, _)) = self.guards.pop() {
            drop(g);
            self.gd(id, -1);
            self.check("final guard drop")?;
        }
        while let Some((h, id)) = self.handles.pop() {
            drop(h);
            self.own(id, -1);
        }
        for c in self.conts.iter_mut() {
            if let Some((cont, cur)) = c.take() {
                drop(cont);
                if let Some(id) = cur {
                    let t = self.vals.get_mut(&id).unwrap();
                    t.owners -= 1;
                }
            }
        }
        self.check("final release")?;
        for (id, t) in self.vals.iter() {
            if t.keep.is_none() {
                if t.drops.load(Ordering::SeqCst) != 1 {
                    return Err(format!("[{}] fresh value {} destroyed {} times at the end", S::NAME, id, t.drops.load(Ordering::SeqCst)));
                }
                self.stats.fresh_destroyed += 1;
            } else if t.weak.strong_count() != 1 {
                return Err(format!("[{}] pool value {} has strong count {} at the end", S::NAME, id, t.weak.strong_count()));
            }
        }
        Ok(self.stats.clone())
    }
}

fn run_one<K: Kind, S: SStrat<K>>(p: &SProg) -> Result<SeqStats, String> {
    let mut w = World::<K, S>::new();
    for (i, op) in p.ops.iter().enumerate() {
        let r = w.step(op).and_then(|_| w.check(&format!("op {} {:?}", i, op)));
        if let Err(m) = r {
            // nothing is released in a state the model does not understand (a double release
            // would corrupt the heap of the process the shrinker goes on using)
            std::mem::forget(w);
            return Err(m);
        }
    }
    let r = w.finish();
    if r.is_err() {
        std::mem::forget(w);
    }
    r
}

/// run the program under all three strategies; results must match the model in each
pub fn run_prog(p: &SProg) -> Result<SeqStats, String> {
    let r = if p.option_flavour {
        let a = run_one::<Option<Arc<Val>>, DefaultStrategy>(p)?;
        run_one::<Option<Arc<Val>>, FillFastSlots>(p)?;
        run_one::<Option<Arc<Val>>, RwLock<()>>(p)?;
        a
    } else {
        let a = run_one::<Arc<Val>, DefaultStrategy>(p)?;
        run_one::<Arc<Val>, FillFastSlots>(p)?;
        run_one::<Arc<Val>, RwLock<()>>(p)?;
        a
    };
    Ok(r)
}

pub fn nontrivial(s: &SeqStats) -> bool {
    s.guard_across_write > 0 || s.rcu > 0 || s.cas_ok + s.cas_fail > 0 || s.nulls > 0 || s.max_conts >= 2
}
