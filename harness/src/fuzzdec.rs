//! E4: decoding of fuzzer bytes into the same case types the proptest generators produce
//! (constructive: every byte string decodes to a valid case), and the in-target oracles.
use crate::prog::*;
use crate::rt::{Freeze, Mode, Policy, Spec};
use crate::{accessseq, cacheseq, exec, kinds, seq, serdechk};
use arbitrary::{Result, Unstructured};

fn val(u: &mut Unstructured) -> Result<Val> {
    Ok(match u.int_in_range(0u8..=9)? {
        0 => Val::Null,
        1 | 2 => Val::Handle(u.arbitrary()?),
        _ => Val::Fresh,
    })
}

fn op(u: &mut Unstructured, nc: u8, nt: u8) -> Result<Op> {
    let c = u.int_in_range(0..=nc - 1)?;
    Ok(match u.int_in_range(0u8..=29)? {
        0..=4 => Op::Load(c),
        5 | 6 => Op::LoadFull(c),
        7 => Op::Hold(c, u.int_in_range(1u8..=11)?),
        8 => Op::GuardDeref(u.arbitrary()?),
        9 | 10 => Op::GuardDrop(u.arbitrary()?),
        11 => Op::GuardIntoInner(u.arbitrary()?),
        12 => Op::GuardFromInner(u.arbitrary()?),
        13 => Op::HandleDeref(u.arbitrary()?),
        14 => Op::HandleDrop(u.arbitrary()?),
        15 | 16 => Op::Store(c, val(u)?),
        17 | 18 => Op::Swap(c, val(u)?),
        19 | 20 => {
            let cur = match u.int_in_range(0u8..=9)? {
                0..=3 => Cur::Loaded,
                4..=6 => Cur::Handle(u.arbitrary()?),
                7 => Cur::Null,
                _ => Cur::Held(u.arbitrary()?),
            };
            let form = [Form::Ref, Form::Guard, Form::GuardRef, Form::Raw][u.int_in_range(0usize..=3)?];
            Op::Cas(c, cur, form, val(u)?)
        }
        21 | 22 => {
            let nested = match u.int_in_range(0u8..=6)? {
                0 => Nested::Load(u.int_in_range(0..=nc - 1)?),
                1 => Nested::Store(u.int_in_range(0..=nc - 1)?),
                2 => Nested::Rcu(u.int_in_range(0..=nc - 1)?),
                _ => Nested::None,
            };
            Op::Rcu(c, nested, 0)
        }
        23 => Op::SendHandle(u.arbitrary()?, u.int_in_range(0..=nt - 1)?),
        24 => Op::SendGuard(u.arbitrary()?, u.int_in_range(0..=nt - 1)?),
        25 => Op::TempCont(u.int_in_range(0u8..=11)?, u.arbitrary()?),
        26 => Op::Quiesce,
        27 => Op::Aba(c),
        28 => Op::Recycle(c, u.int_in_range(0..=nc - 1)?),
        _ => Op::CacheLoad(c),
    })
}

/// bytes -> E1 case: program first, then the schedule spec; whatever is left becomes the explicit
/// decision stream (scheduler choices and weak-memory read choices)
pub fn case(data: &[u8]) -> Result<Case> {
    let mut u = Unstructured::new(data);
    let nt = u.int_in_range(2u8..=5)?;
    let nc = u.int_in_range(1u8..=2)?;
    let mut threads = Vec::new();
    for i in 0..nt {
        let nops = u.int_in_range(1usize..=6)?;
        let mut ops = Vec::new();
        for _ in 0..nops {
            ops.push(op(&mut u, nc, nt)?);
        }
        let after = if i >= 2 && u.ratio(1u8, 3u8)? { Some((u.int_in_range(1..=i - 1)?, u.arbitrary()?)) } else { None };
        threads.push(ThreadSpec { after, ops, bequeath: i > 0 && u.ratio(1u8, 4u8)?, dtor_ops: Vec::new() });
    }
    let prog = Program {
        strat: u.ratio(1u8, 3u8)? as u8,
        ncont: nc,
        init_null: (0..nc).map(|_| false).collect(),
        reuse: u.ratio(1u8, 3u8)?,
        threads,
        consume: (0..nc).map(|_| true).collect(),
        outlive: u.ratio(1u8, 3u8)?,
        panicky: 0,
        ctype: Vec::new(),
    };
    let mode = if u.ratio(1u8, 4u8)? { Mode::SC } else { Mode::M2 };
    let freeze = if u.ratio(1u8, 8u8)? { Some(Freeze { at: u.int_in_range(0u32..=300)?, keep: u.int_in_range(0..=nt - 1)?, n_ops: 1 }) } else { None };
    let rest = u.take_rest();
    let decisions: Vec<u16> = rest.iter().map(|&b| if b < 0xc0 { 0 } else { (b & 0x3f) as u16 % 7 + 1 }).collect();
    let spec = Spec { mode, policy: Policy::Rand { p: 32 }, seed: 1, stale: 0, spurious: 0, freeze, budget: 20000, decisions: Some(decisions) };
    Ok(Case { prog, spec })
}

pub fn report_violation(prop: &str, engine: &str, oracle: &str, msg: &str, case: serde_json::Value) -> ! {
    let dir = format!("{}/work/replays", crate::driver::verif_dir());
    let _ = std::fs::create_dir_all(&dir);
    let rp = crate::driver::Replay2 { property: prop.into(), oracle: oracle.into(), msg: msg.into(), engine: engine.into(), tree_rev: String::new(), case };
    let body = serde_json::to_string_pretty(&rp).unwrap();
    use std::hash::{Hash, Hasher};
    let mut h = std::collections::hash_map::DefaultHasher::new();
    body.hash(&mut h);
    let path = format!("{}/fuzz-{}-{:016x}.json", dir, engine, h.finish());
    std::fs::write(&path, body).unwrap();
    println!("oracle {} : {}", oracle, msg);
    println!("VIOLATION property={} replay={}", prop, path);
    std::process::abort();
}

/// target `sched`: the full E1 oracle set on a decoded case
pub fn fuzz_sched(data: &[u8]) {
    static INIT: std::sync::Once = std::sync::Once::new();
    INIT.call_once(crate::driver::install);
    let Ok(c) = case(data) else { return };
    let out = exec::run_case(&c, false);
    if out.hung {
        std::process::exit(2);
    }
    if let Some(f) = out.fail {
        let findings = crate::driver::load_findings();
        if crate::driver::match_open(&findings, &f).is_some() {
            return;
        }
        report_violation(&f.prop, "E1", &f.oracle, &f.msg, serde_json::to_value(&c).unwrap());
    }
}

fn seq_ops(u: &mut Unstructured) -> Result<seq::SProg> {
    use seq::*;
    let sv = |u: &mut Unstructured| -> Result<SVal> {
        Ok(match u.int_in_range(0u8..=7)? {
            0 => SVal::Null,
            1 | 2 => SVal::Fresh,
            _ => SVal::Pool(u.int_in_range(0u8..=4)?),
        })
    };
    let option_flavour = u.arbitrary()?;
    let n = u.int_in_range(1usize..=60)?;
    let mut ops = vec![SOp::New(0, SVal::Pool(0))];
    for _ in 0..n {
        let c: u8 = u.arbitrary()?;
        ops.push(match u.int_in_range(0u8..=16)? {
            0 => SOp::New(u.int_in_range(0u8..=2)?, sv(u)?),
            1..=3 => SOp::Load(c),
            4 => SOp::LoadFull(c),
            5 | 6 => SOp::GuardDrop(c),
            7 => SOp::GuardIntoInner(c),
            8 => SOp::GuardFromInner(c),
            9 => SOp::HandleDrop(c),
            10 => SOp::Store(c, sv(u)?),
            11 => SOp::Swap(c, sv(u)?),
            12 | 13 => {
                let cur = match u.int_in_range(0u8..=6)? {
                    0..=2 => SCur::Stored,
                    3 | 4 => SCur::Handle(u.arbitrary()?),
                    _ => SCur::Val(sv(u)?),
                };
                let form = [SForm::Ref, SForm::Raw, SForm::Guard, SForm::GuardRef][u.int_in_range(0usize..=3)?];
                SOp::Cas(c, cur, form, sv(u)?)
            }
            14 => SOp::Rcu(c, sv(u)?),
            15 => SOp::IntoInner(c),
            _ => SOp::DropCont(c),
        });
    }
    Ok(SProg { option_flavour, ops })
}

/// target `seqmodel`: C14 model-based oracle (real Arc, ASan)
pub fn fuzz_seqmodel(data: &[u8]) {
    let mut u = Unstructured::new(data);
    let Ok(p) = seq_ops(&mut u) else { return };
    if let Err(m) = seq::run_prog(&p) {
        report_violation("C14", "C14seq", "E2", &m, serde_json::to_value(&p).unwrap());
    }
}

/// second half of target `kinds`: mixed-kind programs (C12mix / C15mix)
fn fuzz_mix(u: &mut Unstructured) {
    use crate::mixseq::*;
    let r: Result<MCase> = (|| {
        let val = |u: &mut Unstructured| -> Result<MVal> {
            Ok(match u.int_in_range(0u8..=8)? {
                0..=5 => MVal::Pool(u.int_in_range(0u8..=2)?),
                6 | 7 => MVal::Fresh,
                _ => MVal::Empty,
            })
        };
        let nk = u.int_in_range(1usize..=4)?;
        let mut kinds = Vec::new();
        for _ in 0..nk {
            kinds.push([MKind::Strong, MKind::OptStrong, MKind::Weak, MKind::OptWeak][u.int_in_range(0usize..=3)?]);
        }
        let mut init = Vec::new();
        for _ in 0..4 {
            init.push(val(u)?);
        }
        let n = u.int_in_range(1usize..=39)?;
        let mut ops = Vec::new();
        for _ in 0..n {
            let c = u.int_in_range(0u8..=3)?;
            ops.push(match u.int_in_range(0u8..=11)? {
                0..=2 => MOp::Load(c),
                3 => MOp::LoadFull(c),
                4 | 5 => MOp::Store(c, val(u)?),
                6 => {
                    if u.ratio(1u8, 2u8)? {
                        MOp::Swap(c, val(u)?)
                    } else {
                        MOp::Rcu(c, val(u)?)
                    }
                }
                7 => MOp::Cas(c, val(u)?, val(u)?),
                8 => MOp::DerefGuard(u.arbitrary()?),
                9 => MOp::DropGuard(u.arbitrary()?),
                10 => {
                    if u.ratio(1u8, 2u8)? {
                        MOp::DropHandle(u.arbitrary()?)
                    } else {
                        MOp::StoreHandle(c, u.arbitrary()?)
                    }
                }
                _ => {
                    if u.ratio(1u8, 2u8)? {
                        MOp::DropPool(u.int_in_range(0u8..=2)?)
                    } else {
                        MOp::Hold(c, u.int_in_range(2u8..=11)?)
                    }
                }
            });
        }
        Ok(MCase { rc_family: u.arbitrary()?, fallback_only: u.arbitrary()?, kinds, init, ops, cont_first: u.arbitrary()?, consume: u.arbitrary()? })
    })();
    let Ok(c) = r else { return };
    if let Err(m) = run_case(&c) {
        report_violation("C15", "C15mix", "E2", &m, serde_json::to_value(&c).unwrap());
    }
}

/// target `kinds`: C15 laws (real Arc/Rc/Weak, ASan)
pub fn fuzz_kinds(data: &[u8]) {
    use kinds::*;
    let mut u = Unstructured::new(data);
    if u.ratio(1u8, 2u8).unwrap_or(false) {
        return fuzz_mix(&mut u);
    }
    let r: Result<KCase> = (|| {
        let kind = [KKind::Strong, KKind::OptSome, KKind::OptNone, KKind::Weak, KKind::WeakDangling, KKind::WeakDead, KKind::OptWeakSome, KKind::OptWeakNone][u.int_in_range(0usize..=7)?];
        let n = u.int_in_range(1usize..=11)?;
        let mut ops = Vec::new();
        for _ in 0..n {
            ops.push([KOp::AsPtr, KOp::IntoFrom, KOp::IncDec, KOp::IncKeep, KOp::CloneDrop, KOp::Container, KOp::ContainerStore, KOp::Distinct][u.int_in_range(0usize..=7)?]);
        }
        Ok(KCase { rc_family: u.arbitrary()?, pointee: u.int_in_range(0u8..=5)?, kind, extra_strong: u.int_in_range(0u8..=3)?, extra_weak: u.int_in_range(0u8..=3)?, ops })
    })();
    let Ok(c) = r else { return };
    if let Err(m) = run_case(&c) {
        report_violation("C15", "C15kinds", "E2", &m, serde_json::to_value(&c).unwrap());
    }
}

/// target `cache_access`: C16/C17 sequential oracles
pub fn fuzz_cache_access(data: &[u8]) {
    let mut u = Unstructured::new(data);
    let r: Result<(cacheseq::CCase, accessseq::ACase)> = (|| {
        use accessseq::AOp;
        use cacheseq::COp;
        let n = u.int_in_range(1usize..=40)?;
        let mut cops = Vec::new();
        let mut aops = Vec::new();
        for _ in 0..n {
            let b: u8 = u.arbitrary()?;
            cops.push(match u.int_in_range(0u8..=12)? {
                0..=2 => COp::Store(b % 6),
                3 => COp::StoreFresh,
                4 => COp::StoreSame,
                5 => COp::NewCache,
                6 => COp::NewMapCache,
                7 => COp::CloneCache(b),
                8..=10 => COp::Load(b),
                11 => COp::MapLoad(b),
                _ => COp::DropCache(b),
            });
            aops.push(match u.int_in_range(0u8..=9)? {
                0 | 1 => AOp::Store(b as u32 + 1),
                2..=4 => AOp::Load(b % accessseq::SHAPES),
                5..=7 => AOp::Deref(b),
                8 => AOp::Drop(b),
                _ => AOp::Agree,
            });
        }
        Ok((cacheseq::CCase { ops: cops }, accessseq::ACase { ops: aops }))
    })();
    let Ok((c, a)) = r else { return };
    if let Err(m) = cacheseq::run_case(&c) {
        report_violation("C16", "C16seq", "E2", &m, serde_json::to_value(&c).unwrap());
    }
    if let Err(m) = accessseq::run_case(&a) {
        report_violation("C17", "C17seq", "E2", &m, serde_json::to_value(&a).unwrap());
    }
}

fn sv(u: &mut Unstructured, depth: u32) -> Result<serdechk::SV> {
    use serdechk::*;
    let top = if depth >= 3 { 8 } else { 12 };
    Ok(match u.int_in_range(0u8..=top)? {
        0 => SV::Unit,
        1 => SV::Bool(u.arbitrary()?),
        2 => SV::I(u.arbitrary()?),
        3 => SV::U(u.arbitrary()?),
        4 => SV::Ch(u.arbitrary()?),
        5 => SV::Str(u.arbitrary()?),
        6 => SV::Pair(u.arbitrary()?, u.arbitrary()?),
        7 => SV::New(Wrapper(u.arbitrary()?)),
        8 => SV::Struct { x: u.arbitrary()?, y: u.arbitrary()? },
        9 => SV::Opt(if u.arbitrary()? { Some(Box::new(sv(u, depth + 1)?)) } else { None }),
        10 => {
            let n = u.int_in_range(0usize..=3)?;
            SV::Seq((0..n).map(|_| sv(u, depth + 1)).collect::<Result<Vec<_>>>()?)
        }
        11 => {
            let n = u.int_in_range(0usize..=3)?;
            let mut m = std::collections::BTreeMap::new();
            for _ in 0..n {
                m.insert(u.arbitrary::<String>()?, sv(u, depth + 1)?);
            }
            SV::Map(m)
        }
        _ => SV::Rec(Point { a: u.arbitrary()?, b: u.arbitrary()?, c: if u.arbitrary()? { Some(Box::new(sv(u, depth + 1)?)) } else { None } }),
    })
}

/// target `serde_rt`: C20 oracles
pub fn fuzz_serde(data: &[u8]) {
    let mut u = Unstructured::new(data);
    let r: Result<serdechk::SCase> = (|| {
        let none: bool = u.ratio(1u8, 8u8)?;
        let option_flavour: bool = u.arbitrary()?;
        Ok(serdechk::SCase { pointee: if u.ratio(1u8, 5u8)? { u.int_in_range(1u8..=8)? } else { 0 }, value: if none { None } else { Some(sv(&mut u, 0)?) }, option_flavour: option_flavour || none })
    })();
    let Ok(c) = r else { return };
    if let Err(m) = serdechk::run_case(&c) {
        report_violation("C20", "C20serde", "E2", &m, serde_json::to_value(&c).unwrap());
    }
}
