//! E2 / C15: laws of the `RefCnt` implementations (Arc, Rc, Option of either, sync::Weak, rc::Weak,
//! Option of Weak) against a shadow model of (strong, weak) counts and identity, for several
//! pointee types (zero-sized, small, over-aligned, heap-owning) and count states.
#![allow(dead_code)]
use arc_swap::{ArcSwapAny, RefCnt};
use proptest::prelude::*;
use serde::{Deserialize, Serialize};

#[derive(Clone, Copy, Debug, PartialEq, Eq, Serialize, Deserialize)]
pub enum KKind {
    Strong,
    OptSome,
    OptNone,
    Weak,
    WeakDangling,
    WeakDead,
    OptWeakSome,
    OptWeakNone,
}

#[derive(Clone, Copy, Debug, PartialEq, Eq, Serialize, Deserialize)]
pub enum KOp {
    AsPtr,
    IntoFrom,
    IncDec,
    /// inc now, dec at the end
    IncKeep,
    CloneDrop,
    /// container round trip: new, load, load_full, swap, into_inner
    Container,
    /// container: store another value over it, drop the container
    ContainerStore,
    Distinct,
}

#[derive(Clone, Debug, PartialEq, Eq, Serialize, Deserialize)]
pub struct KCase {
    pub rc_family: bool,
    pub pointee: u8,
    pub kind: KKind,
    pub extra_strong: u8,
    pub extra_weak: u8,
    pub ops: Vec<KOp>,
}

pub fn case_strategy() -> impl Strategy<Value = KCase> {
    let kind = prop_oneof![
        Just(KKind::Strong),
        Just(KKind::OptSome),
        Just(KKind::OptNone),
        Just(KKind::Weak),
        Just(KKind::WeakDangling),
        Just(KKind::WeakDead),
        Just(KKind::OptWeakSome),
        Just(KKind::OptWeakNone)
    ];
    let op = prop_oneof![
        Just(KOp::AsPtr),
        Just(KOp::IntoFrom),
        Just(KOp::IncDec),
        Just(KOp::IncKeep),
        Just(KOp::CloneDrop),
        Just(KOp::Container),
        Just(KOp::ContainerStore),
        Just(KOp::Distinct)
    ];
    (any::<bool>(), 0u8..6, kind, 0u8..4, 0u8..4, proptest::collection::vec(op, 1..12)).prop_map(|(rc_family, pointee, kind, extra_strong, extra_weak, ops)| KCase { rc_family, pointee, kind, extra_strong, extra_weak, ops })
}

pub struct Zst;
#[repr(align(64))]
pub struct Align64(pub u8);

pub trait Pointee: 'static {
    fn make(seed: u8) -> Self;
}
impl Pointee for Zst {
    fn make(_: u8) -> Self {
        Zst
    }
}
impl Pointee for u8 {
    fn make(s: u8) -> Self {
        s
    }
}
impl Pointee for u64 {
    fn make(s: u8) -> Self {
        s as u64 * 0x0101010101010101
    }
}
impl Pointee for [u8; 24] {
    fn make(s: u8) -> Self {
        [s; 24]
    }
}
impl Pointee for String {
    fn make(s: u8) -> Self {
        format!("pointee-{}", s)
    }
}
impl Pointee for Align64 {
    fn make(s: u8) -> Self {
        Align64(s)
    }
}


/// The laws for one value `k` of kind K. `counts()` reads the (strong, weak) counts of the target
/// (through a probe that is itself part of the baseline); `unit` = what one live K adds to
/// (strong, weak); `empty` = K is the empty value (None / dangling Weak).
fn laws<K: RefCnt + 'static>(k: K, other: K, ops: &[KOp], counts: &dyn Fn() -> (usize, usize), unit: (usize, usize), empty: bool, other_is_distinct_object: bool) -> Result<(), String> {
    let c0 = counts();
    let expect = |n: usize, what: &str| -> Result<(), String> {
        let c = counts();
        let want = (c0.0 + n * unit.0, c0.1 + n * unit.1);
        if c != want {
            return Err(format!("{}: counts (strong, weak) = {:?}, expected {:?} (baseline {:?}, {} extra reference(s))", what, c, want, c0, n));
        }
        Ok(())
    };
    let p0 = K::as_ptr(&k);
    if empty != p0.is_null() {
        return Err(format!("as_ptr: empty value <-> null pointer violated (empty={}, ptr={:?})", empty, p0));
    }
    if p0 as usize == arc_swap::verif::encodings().debt_none {
        return Err("as_ptr returned the reserved 'no debt' value".into());
    }
    let mut kept: Vec<*mut K::Base> = Vec::new();
    let mut k = Some(k);
    for op in ops {
        match op {
            KOp::AsPtr => {
                let p = K::as_ptr(k.as_ref().unwrap());
                if p != p0 {
                    return Err(format!("as_ptr is not stable: {:?} then {:?}", p0, p));
                }
                expect(kept.len(), "as_ptr")?;
            }
            KOp::IntoFrom => {
                let p = K::into_ptr(k.take().unwrap());
                if p != p0 {
                    return Err(format!("into_ptr gives {:?}, as_ptr gave {:?}", p, p0));
                }
                expect(kept.len(), "into_ptr")?;
                let back = unsafe { K::from_ptr(p) };
                if K::as_ptr(&back) != p0 {
                    return Err(format!("from_ptr(into_ptr(x)) is another object: {:?} vs {:?}", K::as_ptr(&back), p0));
                }
                k = Some(back);
                expect(kept.len(), "from_ptr")?;
            }
            KOp::IncDec => {
                let p = K::inc(k.as_ref().unwrap());
                if p != p0 {
                    return Err(format!("inc returned {:?}, as_ptr gave {:?}", p, p0));
                }
                expect(kept.len() + 1, "inc")?;
                unsafe { K::dec(p) };
                expect(kept.len(), "dec")?;
            }
            KOp::IncKeep => {
                let p = K::inc(k.as_ref().unwrap());
                if p != p0 {
                    return Err(format!("inc returned {:?}, as_ptr gave {:?}", p, p0));
                }
                kept.push(p);
                expect(kept.len(), "inc")?;
            }
            KOp::CloneDrop => {
                let c = k.as_ref().unwrap().clone();
                if K::as_ptr(&c) != p0 {
                    return Err("clone denotes another object".into());
                }
                expect(kept.len() + 1, "clone")?;
                drop(c);
                expect(kept.len(), "drop of clone")?;
            }
            KOp::Container => {
                let cont: ArcSwapAny<K> = ArcSwapAny::new(k.as_ref().unwrap().clone());
                expect(kept.len() + 1, "ArcSwapAny::new")?;
                {
                    let g = cont.load();
                    if K::as_ptr(&g) != p0 {
                        return Err(format!("container load gives {:?}, stored {:?}", K::as_ptr(&g), p0));
                    }
                    let c = counts();
                    let lo = (c0.0 + (kept.len() + 1) * unit.0, c0.1 + (kept.len() + 1) * unit.1);
                    let hi = (lo.0 + unit.0, lo.1 + unit.1);
                    if c.0 < lo.0 || c.0 > hi.0 || c.1 < lo.1 || c.1 > hi.1 {
                        return Err(format!("with a guard alive counts are {:?}, expected between {:?} and {:?}", c, lo, hi));
                    }
                }
                expect(kept.len() + 1, "guard drop")?;
                let full = cont.load_full();
                if K::as_ptr(&full) != p0 {
                    return Err("load_full gives another object".into());
                }
                expect(kept.len() + 2, "load_full")?;
                let old = cont.swap(full);
                if K::as_ptr(&old) != p0 {
                    return Err("swap returned another object".into());
                }
                expect(kept.len() + 2, "swap")?;
                drop(old);
                let inner = cont.into_inner();
                if K::as_ptr(&inner) != p0 {
                    return Err("into_inner returned another object".into());
                }
                expect(kept.len() + 1, "into_inner")?;
                drop(inner);
                expect(kept.len(), "drop of into_inner result")?;
            }
            KOp::ContainerStore => {
                let cont: ArcSwapAny<K> = ArcSwapAny::new(k.as_ref().unwrap().clone());
                expect(kept.len() + 1, "ArcSwapAny::new")?;
                cont.store(other.clone());
                expect(kept.len(), "store over the value")?;
                let g = cont.load();
                if K::as_ptr(&g) != K::as_ptr(&other) {
                    return Err("load after store gives another object".into());
                }
                drop(g);
                let prev = cont.compare_and_swap(&other, k.as_ref().unwrap().clone());
                if K::as_ptr(&prev) != K::as_ptr(&other) {
                    return Err("compare_and_swap returned another object".into());
                }
                drop(prev);
                expect(kept.len() + 1, "compare_and_swap back")?;
                drop(cont);
                expect(kept.len(), "container drop")?;
            }
            KOp::Distinct => {
                if other_is_distinct_object && !empty && K::as_ptr(&other) == p0 {
                    return Err(format!("two distinct live objects have the same address {:?}", p0));
                }
            }
        }
    }
    for p in kept.drain(..) {
        unsafe { K::dec(p) };
    }
    expect(0, "final dec")?;
    drop(k);
    Ok(())
}

macro_rules! family {
    ($fname:ident, $S:ident, $W:ident, $path:path) => {
        fn $fname<P: Pointee>(c: &KCase) -> Result<(), String> {
            use $path as m;
            let base: m::$S<P> = m::$S::new(P::make(1));
            let other_base: m::$S<P> = m::$S::new(P::make(2));
            let _xs: Vec<m::$S<P>> = (0..c.extra_strong).map(|_| base.clone()).collect();
            let _xw: Vec<m::$W<P>> = (0..c.extra_weak).map(|_| m::$S::downgrade(&base)).collect();
            let probe = base.clone();
            let counts = move || (m::$S::strong_count(&probe), m::$S::weak_count(&probe));
            let r = match c.kind {
                KKind::Strong => laws::<m::$S<P>>(base.clone(), other_base.clone(), &c.ops, &counts, (1, 0), false, true),
                KKind::OptSome => laws::<Option<m::$S<P>>>(Some(base.clone()), Some(other_base.clone()), &c.ops, &counts, (1, 0), false, true),
                KKind::OptNone => laws::<Option<m::$S<P>>>(None, Some(other_base.clone()), &c.ops, &counts, (0, 0), true, true),
                KKind::Weak => laws::<m::$W<P>>(m::$S::downgrade(&base), m::$S::downgrade(&other_base), &c.ops, &counts, (0, 1), false, true),
                KKind::WeakDangling => laws::<m::$W<P>>(m::$W::new(), m::$S::downgrade(&other_base), &c.ops, &counts, (0, 0), true, true),
                KKind::OptWeakSome => laws::<Option<m::$W<P>>>(Some(m::$S::downgrade(&base)), Some(m::$S::downgrade(&other_base)), &c.ops, &counts, (0, 1), false, true),
                KKind::OptWeakNone => laws::<Option<m::$W<P>>>(None, Some(m::$S::downgrade(&other_base)), &c.ops, &counts, (0, 0), true, true),
                KKind::WeakDead => {
                    // the target is already dropped: the weak pointer still round-trips, is not
                    // null, never upgrades, and a container of it does not resurrect anything
                    let dead: m::$S<P> = m::$S::new(P::make(3));
                    let w = m::$S::downgrade(&dead);
                    let keep = w.clone();
                    drop(dead);
                    let counts_dead = || (0usize, 0usize);
                    let r = laws::<m::$W<P>>(w, m::$S::downgrade(&other_base), &c.ops, &counts_dead, (0, 0), false, true);
                    if keep.upgrade().is_some() {
                        return Err("a dead target was resurrected".into());
                    }
                    r
                }
            };
            r?;
            // a container of Weak does not keep its target alive
            if matches!(c.kind, KKind::Weak | KKind::OptWeakSome) {
                let target: m::$S<P> = m::$S::new(P::make(4));
                let cont: ArcSwapAny<m::$W<P>> = ArcSwapAny::new(m::$S::downgrade(&target));
                if m::$S::strong_count(&target) != 1 {
                    return Err(format!("a container of Weak raised the strong count to {}", m::$S::strong_count(&target)));
                }
                if cont.load().upgrade().is_none() {
                    return Err("the weak pointer in the container lost its live target".into());
                }
                drop(target);
                if cont.load().upgrade().is_some() {
                    return Err("a container of Weak kept its target alive".into());
                }
            }
            // everything released: only `base` + extras + probe remain
            if m::$S::strong_count(&base) != 2 + c.extra_strong as usize || m::$S::weak_count(&base) != c.extra_weak as usize {
                return Err(format!("at the end counts are ({}, {}), expected ({}, {})", m::$S::strong_count(&base), m::$S::weak_count(&base), 2 + c.extra_strong as usize, c.extra_weak));
            }
            if m::$S::strong_count(&other_base) != 1 {
                return Err(format!("the other object ends with strong count {}", m::$S::strong_count(&other_base)));
            }
            Ok(())
        }
    };
}

mod arcs {
    pub use std::sync::{Arc, Weak};
}
mod rcs {
    pub use std::rc::{Rc, Weak};
}
family!(run_arc, Arc, Weak, self::arcs);
family!(run_rc, Rc, Weak, self::rcs);

pub fn run_case(c: &KCase) -> Result<(), String> {
    macro_rules! by_pointee {
        ($f:ident) => {
            match c.pointee {
                0 => $f::<Zst>(c),
                1 => $f::<u8>(c),
                2 => $f::<u64>(c),
                3 => $f::<[u8; 24]>(c),
                4 => $f::<String>(c),
                _ => $f::<Align64>(c),
            }
        };
    }
    let r = if c.rc_family { by_pointee!(run_rc) } else { by_pointee!(run_arc) };
    r.map_err(|m| format!("{} {:?} pointee#{}: {}", if c.rc_family { "Rc" } else { "Arc" }, c.kind, c.pointee, m))
}

pub fn nontrivial(c: &KCase) -> bool {
    matches!(c.kind, KKind::OptNone | KKind::WeakDangling | KKind::WeakDead | KKind::OptWeakNone) || c.extra_weak > 0
}
