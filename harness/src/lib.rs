//! vcheck: verification harness for arc-swap (see /verif/DESIGN.md).
pub mod accessseq;
pub mod cacheseq;
pub mod checks;
pub mod driver;
pub mod e2;
pub mod exec;
pub mod kinds;
pub mod mixseq;
pub mod seq;
pub mod serdechk;
pub mod types;
pub mod lin;
pub mod litmus;
pub mod prog;
pub mod rt;
pub mod varc;
pub mod fuzzdec;

/// Allocation accounting for the sequential engines: the number of live blocks of one distinctive
/// size (that of the reference-counted allocation `mixseq` uses) per thread. std cannot report
/// the weak count of an allocation whose value is gone, so a leaked *weak* reference of a dead
/// target is invisible to every count oracle; it is not invisible to the allocator - the block is
/// never freed.
pub mod alloc_count {
    use std::alloc::{GlobalAlloc, Layout, System};
    use std::cell::Cell;

    pub const TRACKED_SIZE: usize = 1000;
    thread_local! {
        static LIVE: Cell<isize> = const { Cell::new(0) };
    }
    pub fn live() -> isize {
        LIVE.try_with(|l| l.get()).unwrap_or(0)
    }
    pub struct Counting;
    unsafe impl GlobalAlloc for Counting {
        unsafe fn alloc(&self, l: Layout) -> *mut u8 {
            if l.size() == TRACKED_SIZE {
                let _ = LIVE.try_with(|c| c.set(c.get() + 1));
            }
            System.alloc(l)
        }
        unsafe fn dealloc(&self, p: *mut u8, l: Layout) {
            if l.size() == TRACKED_SIZE {
                let _ = LIVE.try_with(|c| c.set(c.get() - 1));
            }
            System.dealloc(p, l)
        }
        unsafe fn alloc_zeroed(&self, l: Layout) -> *mut u8 {
            if l.size() == TRACKED_SIZE {
                let _ = LIVE.try_with(|c| c.set(c.get() + 1));
            }
            System.alloc_zeroed(l)
        }
        unsafe fn realloc(&self, p: *mut u8, l: Layout, new_size: usize) -> *mut u8 {
            if l.size() == TRACKED_SIZE {
                let _ = LIVE.try_with(|c| c.set(c.get() - 1));
            }
            if new_size == TRACKED_SIZE {
                let _ = LIVE.try_with(|c| c.set(c.get() + 1));
            }
            System.realloc(p, l, new_size)
        }
    }
}

#[global_allocator]
static GLOBAL: alloc_count::Counting = alloc_count::Counting;
