//! vcheck: verification harness for arc-swap (see /verif/DESIGN.md).
pub mod accessseq;
pub mod cacheseq;
pub mod checks;
pub mod driver;
pub mod e2;
pub mod exec;
pub mod kinds;
pub mod mixseq;
pub mod seq;
pub mod serdechk;
pub mod types;
pub mod lin;
pub mod litmus;
pub mod prog;
pub mod rt;
pub mod varc;
pub mod fuzzdec;
