//! E1 runtime: controlled scheduler over real OS threads + view-based memory model with a graph of
//! SeqCst events (M2, see DESIGN.md §4). Every shim atomic operation of the crate, and every
//! operation of the harness pointer's count, is a scheduling point and is interpreted by the model.
#![allow(dead_code)]
use arc_swap::verif::{self, Access, Op, Ordering};
use serde::{Deserialize, Serialize};
use std::cell::Cell;
use std::collections::HashMap;
use std::sync::{Arc, Condvar, Mutex, MutexGuard, OnceLock};

pub const MAXT: usize = 8;
pub const NONE_T: usize = usize::MAX;

// ------------------------------------------------------------------------------------------------
// specification of one execution's schedule / memory-model parameters (generated input)
// ------------------------------------------------------------------------------------------------

#[derive(Clone, Copy, Debug, PartialEq, Eq, Serialize, Deserialize)]
pub enum Mode {
    /// every load reads the newest message: pure interleavings
    SC,
    /// views + SeqCst accesses as fence-wrapped accesses (triage only)
    M1,
    /// views + graph of SeqCst events (C++20 / RC11)
    M2,
}

#[derive(Clone, Debug, PartialEq, Eq, Serialize, Deserialize)]
pub enum Policy {
    /// pre-empt with probability p/256 at every scheduling point
    Rand { p: u8 },
    /// PCT: random priorities, `d` priority change points within the first `len` steps
    Pct { d: u8, len: u16 },
    /// adversary: between any two steps of thread `reader` (while it is inside a load), another
    /// thread completes `k` whole operations
    Burst { reader: u8, k: u8 },
    /// role-triggered stall: thread `victim` is parked right after its `park_nth`-th access to a
    /// location of role `park_role`; it is woken when another thread makes its `wake_nth`-th access
    /// of role `wake_role` (on the victim's node, for node roles), runs `run` steps, and is parked
    /// again until the waking thread has finished its current operation. Aims schedules at the
    /// few-instruction windows between a read and the publication that protects it.
    Stall { victim: u8, park_role: Role, park_nth: u8, wake_role: Role, wake_nth: u8, run: u8 },
    /// ABA adversary: thread `victim` is parked right *before* its `park_nth`-th compare-exchange
    /// on a location of role `park_role`; it is released (and runs `run` steps at once) as soon as
    /// that very location, after having held something else, holds the value the victim expects
    /// again - the schedule under which a stale compare-exchange succeeds. If that never happens
    /// the victim resumes when nobody else can run.
    AbaStall { victim: u8, park_role: Role, park_nth: u8, run: u8 },
}

#[derive(Clone, Debug, PartialEq, Eq, Serialize, Deserialize)]
pub struct Freeze {
    /// global step at which every thread but `keep` is suspended
    pub at: u32,
    /// index (0-based program thread) of the thread that keeps running
    pub keep: u8,
    /// number of operations of `keep` that form the measured solo window
    pub n_ops: u8,
}

#[derive(Clone, Debug, PartialEq, Eq, Serialize, Deserialize)]
pub struct Spec {
    pub mode: Mode,
    pub policy: Policy,
    pub seed: u64,
    /// probability (of 256) that a load with several permitted messages reads a non-newest one
    pub stale: u8,
    /// probability (of 256) of a spurious compare_exchange_weak failure
    pub spurious: u8,
    pub freeze: Option<Freeze>,
    pub budget: u32,
    /// explicit decisions; when present they replace the policy's choices (replay / shrinking)
    pub decisions: Option<Vec<u16>>,
}

impl Spec {
    pub fn simple(mode: Mode, seed: u64, p: u8, stale: u8) -> Spec {
        Spec { mode, policy: Policy::Rand { p }, seed, stale, spurious: 8, freeze: None, budget: 20000, decisions: None }
    }
}

// ------------------------------------------------------------------------------------------------
// memory-model state
// ------------------------------------------------------------------------------------------------

#[derive(Clone, Debug, Default)]
pub struct View {
    pub idx: Vec<u32>,
    pub vc: [u32; MAXT],
    /// number of SeqCst events of each thread that happen-before this point
    pub sc: [u32; MAXT],
    /// number of SeqCst fences of each thread that happen-before this point
    pub fz: [u32; MAXT],
}

impl View {
    pub fn get(&self, l: usize) -> u32 {
        self.idx.get(l).copied().unwrap_or(0)
    }
    pub fn set(&mut self, l: usize, v: u32) {
        if self.idx.len() <= l {
            self.idx.resize(l + 1, 0);
        }
        if self.idx[l] < v {
            self.idx[l] = v;
        }
    }
    pub fn join(&mut self, o: &View) {
        if self.idx.len() < o.idx.len() {
            self.idx.resize(o.idx.len(), 0);
        }
        for (a, b) in self.idx.iter_mut().zip(o.idx.iter()) {
            if *a < *b {
                *a = *b;
            }
        }
        for t in 0..MAXT {
            if self.vc[t] < o.vc[t] {
                self.vc[t] = o.vc[t];
            }
            if self.sc[t] < o.sc[t] {
                self.sc[t] = o.sc[t];
            }
            if self.fz[t] < o.fz[t] {
                self.fz[t] = o.fz[t];
            }
        }
    }
    /// does the event (thread t, epoch e) happen-before a point with this view?
    pub fn knows(&self, t: usize, e: u32) -> bool {
        e <= self.vc[t]
    }
}

pub struct Msg {
    pub scw: Option<usize>,
    pub val: usize,
    pub rel: Option<Arc<View>>,
    pub by: usize,
    pub step: usize,
    /// harness tag (identity of the value stored), only for tagged locations
    pub tag: u64,
}

pub struct Loc {
    pub addr: usize,
    pub hist: Vec<Msg>,
    /// SeqCst events on this location: (event id, position in mo, is_write)
    pub sc_evs: Vec<(usize, usize, bool)>,
    pub role: Role,
    pub node: usize,
    pub tagged: bool,
    /// (fence id, mo position its thread had observed here when the fence executed)
    pub fence_obs: Vec<(usize, usize)>,
    /// reads made after a SeqCst fence: (fences that happen-before the read, position read)
    pub fenced_reads: Vec<(Vec<usize>, usize)>,
}

#[derive(Clone, Copy, PartialEq, Eq, Debug, Hash, Serialize, Deserialize)]
pub enum Role {
    Unknown,
    Storage,
    Strong,
    ListHead,
    FastSlot,
    HelpSlot,
    Control,
    ActiveAddr,
    Handover,
    SpaceOffer,
    InUse,
    ActiveWriters,
    Litmus,
}

#[derive(Clone, Copy, PartialEq, Eq, Debug)]
pub enum TS {
    Run,
    /// waiting for another thread to finish (late start)
    BlockedDep,
    /// finalizer waiting for all others
    BlockedFinal,
    /// waiting at a quiescence point
    BlockedQuiesce,
    Done,
}

#[derive(Clone, Copy, PartialEq, Eq, Debug, Hash, Serialize, Deserialize)]
pub enum OpKind {
    None,
    Load,
    Write,
    GuardDrop,
    Other,
}

pub struct Th {
    pub view: View,
    pub pending: View,
    pub rel_fence: Option<View>,
    pub st: TS,
    pub frozen: bool,
    pub steps: usize,
    pub last_w: HashMap<usize, usize>, // addr -> mo index of my last write there
    pub dep: Option<(usize, bool)>,    // start only after this thread is Done; bool = with hb edge
    pub started: bool,
    pub exiting: bool,
    // current harness-level operation
    pub op: OpKind,
    pub op_cont: usize,
    pub op_step0: usize,
    pub op_gstep0: usize,
    pub op_overlapped: bool,
    pub op_fallback: bool,
    pub op_helped: bool,
    pub op_paid: bool,
    pub ops_done: usize,
    /// completed loads and writes (operations that need the thread's node)
    pub crate_ops_done: usize,
    /// writes other threads made to the crate's atomics while this thread has been inside its
    /// current operation
    pub op_interf: usize,
    /// consecutive own steps inside the current operation with no other thread able to run
    pub alone_steps: usize,
    pub pending_tag: u64,
    pub node: usize, // node address this thread is believed to own (0 = none)
    pub acquiring: bool,
    pub acq_overlap: bool,
    pub spurious_last: bool,
}

#[derive(Default, Clone, Debug, Serialize, Deserialize)]
pub struct Stats {
    pub steps: usize,
    pub switches: usize,
    pub stale_reads: usize,
    pub stale_sc_reads: usize,
    pub stale_cas: usize,
    pub spurious: usize,
    pub sc_blocked: usize,
    // classification (role-labelled trace)
    pub overlap_rw: usize,
    pub confirm_failed: usize,
    pub paid_by_writer: usize,
    pub fallback: usize,
    pub help_seen_intent: usize,
    pub help_other_cont: usize,
    pub help_delivered: usize,
    pub help_accepted: usize,
    pub help_rejected: usize,
    pub node_reclaimed: usize,
    pub node_created: usize,
    pub reclaim_with_writer: usize,
    pub cas_interfered: usize,
    pub writes_overlapped: usize,
    pub gen_wrapped: usize,
    #[serde(default)]
    pub gen_wrapped_nested: usize,
    #[serde(default)]
    pub gen_reused: usize,
    pub max_load_steps: usize,
    pub max_solo_steps: usize,
    pub solo_ops: usize,
    pub frozen_mid_op: usize,
    pub burst_writes_in_load: usize,
    pub acq_overlapped: usize,
    pub peak_alive: usize,
    pub tmp_node_ops: usize,
    /// a writer of container W paid a fast-slot debt of a thread that is inside a load of another
    /// container (the F4 precondition: an unconfirmed debt paid by a foreign writer)
    pub foreign_pay_unconfirmed: usize,
    pub stall_parked: usize,
    pub stall_woken: usize,
}

#[derive(Clone, Default)]
pub struct RaceCell {
    pub w: (usize, u32),
    pub r: [u32; MAXT],
}

#[derive(Clone, Debug, Serialize, Deserialize)]
pub struct Failure {
    /// oracle name, e.g. "O-uaf"
    pub oracle: String,
    /// home property of the oracle
    pub prop: String,
    pub msg: String,
}

pub struct State {
    pub on: bool,
    pub abort: bool,
    pub cur: usize,
    pub th: Vec<Th>,
    pub locs: HashMap<usize, usize>,
    pub loc: Vec<Loc>,
    pub scv: View,
    pub rng: u64,
    pub spec: Spec,
    pub rpos: usize,
    pub log: Vec<u16>,
    pub fail: Option<Failure>,
    pub budget_hit: bool,
    pub stats: Stats,
    pub trace: Vec<String>,
    pub trace_on: bool,
    pub race_cells: Vec<RaceCell>,
    pub sc_out: Vec<Vec<usize>>,
    pub sc_ids: Vec<Vec<usize>>,
    /// per thread: ids (in the SeqCst graph) of its SeqCst fences
    pub fence_ids: Vec<Vec<usize>>,
    // roles
    pub roles: HashMap<usize, (Role, usize)>,
    pub roles_dirty: bool,
    pub nslots: usize,
    pub nnodes: usize,
    /// node address -> owning thread (from the role-labelled trace)
    pub owner: HashMap<usize, usize>,
    pub gen_seen: std::collections::HashSet<(usize, usize, usize)>,
    // policies
    pub prio: Vec<i64>,
    pub change_pts: Vec<usize>,
    pub burst_w: usize,
    pub burst_start: usize,
    pub freeze_state: u8, // 0 = not yet, 1 = active, 2 = over
    pub freeze_ops0: usize,
    pub step_limit_solo: usize,
    pub alive: usize,
    pub quiesce_hook: Option<fn(&mut State)>,
    pub load_bound: usize,
    pub deadlock: bool,
    /// Stall policy: 0 = waiting to park, 1 = parked, 2 = burst, 3 = parked until the waker's op
    /// ends, 4 = over
    pub stall_phase: u8,
    pub stall_count: usize,
    pub stall_burst: usize,
    pub stall_waker: usize,
    pub stall_waker_ops: usize,
    pub parked: usize,
    pub aba_addr: usize,
    pub aba_expected: usize,
    pub aba_changed: bool,
    /// logical clock: ticks on every step and on every stamp (exact real-time order of events)
    pub clock: usize,
}

pub struct Rt {
    pub m: Mutex<State>,
    pub cv: Vec<Condvar>,
    pub done: Condvar,
}

pub fn rt() -> &'static Rt {
    static R: OnceLock<Rt> = OnceLock::new();
    R.get_or_init(|| Rt {
        m: Mutex::new(State {
            on: false,
            abort: false,
            cur: NONE_T,
            th: Vec::new(),
            locs: HashMap::new(),
            loc: Vec::new(),
            scv: View::default(),
            rng: 1,
            spec: Spec::simple(Mode::SC, 1, 32, 0),
            rpos: 0,
            log: Vec::new(),
            fail: None,
            budget_hit: false,
            stats: Stats::default(),
            trace: Vec::new(),
            trace_on: false,
            race_cells: Vec::new(),
            sc_out: Vec::new(),
            sc_ids: Vec::new(),
            fence_ids: Vec::new(),
            roles: HashMap::new(),
            roles_dirty: false,
            nslots: 9,
            nnodes: 0,
            owner: HashMap::new(),
            gen_seen: std::collections::HashSet::new(),
            prio: Vec::new(),
            change_pts: Vec::new(),
            burst_w: NONE_T,
            burst_start: 0,
            freeze_state: 0,
            freeze_ops0: 0,
            step_limit_solo: 0,
            alive: 0,
            quiesce_hook: None,
            load_bound: 0,
            deadlock: false,
            stall_phase: 0,
            stall_count: 0,
            stall_burst: 0,
            stall_waker: NONE_T,
            stall_waker_ops: 0,
            parked: NONE_T,
            aba_addr: 0,
            aba_expected: 0,
            aba_changed: false,
            clock: 0,
        }),
        cv: (0..MAXT).map(|_| Condvar::new()).collect(),
        done: Condvar::new(),
    })
}

thread_local! {
    pub static VT: Cell<usize> = const { Cell::new(NONE_T) };
    pub static EXITING: Cell<bool> = const { Cell::new(false) };
    /// the hook passes everything through (used while the harness inspects crate state)
    pub static PASS: Cell<bool> = const { Cell::new(false) };
}

/// private panic payload used to unwind a virtual thread when the execution is aborted
pub struct AbortExec;

fn is_acq(o: Ordering) -> bool {
    matches!(o, Ordering::Acquire | Ordering::AcqRel | Ordering::SeqCst)
}
fn is_rel(o: Ordering) -> bool {
    matches!(o, Ordering::Release | Ordering::AcqRel | Ordering::SeqCst)
}
fn is_sc(o: Ordering) -> bool {
    matches!(o, Ordering::SeqCst)
}

fn new_th(t: usize) -> Th {
    let mut v = View::default();
    v.vc[0] = 1;
    v.vc[t] = 1;
    Th {
        view: v,
        pending: View::default(),
        rel_fence: None,
        st: if t == 0 { TS::Done } else { TS::Run },
        frozen: false,
        steps: 0,
        last_w: HashMap::new(),
        dep: None,
        started: false,
        exiting: false,
        op: OpKind::None,
        op_cont: 0,
        op_step0: 0,
        op_gstep0: 0,
        op_overlapped: false,
        op_fallback: false,
        op_helped: false,
        op_paid: false,
        ops_done: 0,
        crate_ops_done: 0,
        op_interf: 0,
        alone_steps: 0,
        pending_tag: 0,
        node: 0,
        acquiring: false,
        acq_overlap: false,
        spurious_last: false,
    }
}

impl State {
    pub fn reset(&mut self, nthreads: usize, spec: &Spec) {
        assert!(nthreads + 1 <= MAXT);
        self.on = true;
        self.abort = false;
        self.cur = NONE_T;
        self.th.clear();
        for t in 0..=nthreads {
            self.th.push(new_th(t));
        }
        self.locs.clear();
        self.loc.clear();
        self.scv = View::default();
        self.rng = spec.seed | 1;
        self.spec = spec.clone();
        self.rpos = 0;
        self.log.clear();
        self.fail = None;
        self.budget_hit = false;
        self.stats = Stats::default();
        self.trace.clear();
        self.race_cells.clear();
        self.sc_out.clear();
        self.sc_ids = (0..=nthreads).map(|_| Vec::new()).collect();
        self.fence_ids = (0..=nthreads).map(|_| Vec::new()).collect();
        self.roles.clear();
        self.roles.insert(verif::list_head_addr(), (Role::ListHead, 0));
        self.roles_dirty = false;
        self.nnodes = 0;
        self.owner.clear();
        self.gen_seen.clear();
        self.burst_w = NONE_T;
        self.burst_start = 0;
        self.freeze_state = 0;
        self.alive = 0;
        self.deadlock = false;
        self.stall_phase = 0;
        self.stall_count = 0;
        self.stall_burst = 0;
        self.stall_waker = NONE_T;
        self.stall_waker_ops = 0;
        self.parked = NONE_T;
        self.aba_addr = 0;
        self.aba_expected = 0;
        self.aba_changed = false;
        self.clock = 0;
        // PCT priorities / change points
        self.prio.clear();
        self.change_pts.clear();
        if let Policy::Pct { d, len } = spec.policy {
            let mut ids: Vec<usize> = (0..=nthreads).collect();
            for i in (1..ids.len()).rev() {
                let j = (self.rnd() % (i as u64 + 1)) as usize;
                ids.swap(i, j);
            }
            self.prio = vec![0; nthreads + 1];
            for (rank, &t) in ids.iter().enumerate() {
                self.prio[t] = 1000 + rank as i64;
            }
            for _ in 0..d {
                let p = (self.rnd() % (len.max(1) as u64)) as usize;
                self.change_pts.push(p);
            }
            self.change_pts.sort();
        }
    }

    pub fn rnd(&mut self) -> u64 {
        self.rng = self.rng.wrapping_add(0x9E3779B97F4A7C15);
        let mut z = self.rng;
        z = (z ^ (z >> 30)).wrapping_mul(0xBF58476D1CE4E5B9);
        z = (z ^ (z >> 27)).wrapping_mul(0x94D049BB133111EB);
        z ^ (z >> 31)
    }

    /// One decision in [0, n). `gen` produces the policy's choice when no explicit decisions exist.
    fn decide_with(&mut self, n: usize, gen: impl FnOnce(&mut State) -> usize) -> usize {
        if n <= 1 {
            return 0;
        }
        let d = if let Some(r) = &self.spec.decisions {
            let v = r.get(self.rpos).copied().unwrap_or(0) as usize;
            self.rpos += 1;
            v % n
        } else {
            gen(self) % n
        };
        self.log.push(d as u16);
        d
    }

    fn decide_prob(&mut self, n: usize, prob256: u32) -> usize {
        self.decide_with(n, |st| {
            let x = st.rnd();
            if ((x & 0xff) as u32) < prob256 {
                1 + ((x >> 8) as usize % (n - 1))
            } else {
                0
            }
        })
    }

    pub fn fail(&mut self, oracle: &str, prop: &str, msg: String) {
        if self.fail.is_none() && !self.budget_hit {
            self.fail = Some(Failure { oracle: oracle.into(), prop: prop.into(), msg });
        }
        self.abort = true;
    }

    fn loc_id(&mut self, addr: usize, cur: usize) -> usize {
        if let Some(&l) = self.locs.get(&addr) {
            return l;
        }
        let l = self.loc.len();
        let (role, node) = self.roles.get(&addr).copied().unwrap_or((Role::Unknown, 0));
        self.loc.push(Loc {
            addr,
            hist: vec![Msg { scw: None, val: cur, rel: None, by: 0, step: 0, tag: 0 }],
            sc_evs: Vec::new(),
            role,
            node,
            tagged: false,
            fence_obs: Vec::new(),
            fenced_reads: Vec::new(),
        });
        self.locs.insert(addr, l);
        l
    }

    /// Register a harness-known location (container storage word, count) with a role and, for
    /// storage words, the identity tag of the initial value.
    pub fn register(&mut self, addr: usize, cur: usize, role: Role, tag: u64) {
        if let Some(l) = self.locs.remove(&addr) {
            self.loc[l].addr = 0;
        }
        self.roles.insert(addr, (role, 0));
        let l = self.loc_id(addr, cur);
        self.loc[l].tagged = role == Role::Storage;
        self.loc[l].hist[0].tag = tag;
    }

    pub fn forget(&mut self, addr: usize) {
        if let Some(l) = self.locs.remove(&addr) {
            self.loc[l].addr = 0;
        }
        self.roles.remove(&addr);
    }

    fn fence_acq(&mut self, me: usize) {
        let p = std::mem::take(&mut self.th[me].pending);
        self.th[me].view.join(&p);
    }

    fn fence_sc(&mut self, me: usize) {
        if self.spec.mode == Mode::M2 {
            return;
        }
        self.fence_sc_global(me);
    }

    fn fence_sc_global(&mut self, me: usize) {
        self.fence_acq(me);
        let scv = std::mem::take(&mut self.scv);
        self.th[me].view.join(&scv);
        self.scv = self.th[me].view.clone();
    }

    fn acquire_from(&mut self, me: usize, rel: Option<Arc<View>>, acq: bool) {
        if let Some(r) = rel {
            if acq {
                self.th[me].view.join(&r);
            } else {
                self.th[me].pending.join(&r);
            }
        }
    }

    fn append(&mut self, me: usize, l: usize, val: usize, rel: bool, inherit: Option<Arc<View>>) {
        let idx = self.loc[l].hist.len() as u32;
        self.th[me].view.set(l, idx);
        let mut relv: Option<View> = None;
        if rel {
            relv = Some(self.th[me].view.clone());
        } else if let Some(f) = &self.th[me].rel_fence {
            let mut v = f.clone();
            v.set(l, idx);
            relv = Some(v);
        }
        if let Some(i) = inherit {
            match &mut relv {
                Some(v) => v.join(&i),
                None => relv = Some((*i).clone()),
            }
        }
        self.th[me].view.vc[me] += 1;
        let step = self.stats.steps;
        let tag = if self.loc[l].tagged { self.th[me].pending_tag } else { 0 };
        self.loc[l].hist.push(Msg { scw: None, val, rel: relv.map(Arc::new), by: me, step, tag });
        let addr = self.loc[l].addr;
        self.th[me].last_w.insert(addr, idx as usize);
    }

    /// Interpret one access. Returns (value, ok, new mo-latest value).
    pub fn apply(&mut self, me: usize, a: &Access) -> (usize, bool, usize) {
        if a.op == Op::GetMut {
            if let Some(l) = self.locs.remove(&a.addr) {
                self.loc[l].addr = 0;
            }
            return (0, true, a.cur);
        }
        if a.op == Op::Fence {
            match a.success {
                Ordering::Acquire => self.fence_acq(me),
                Ordering::Release => self.th[me].rel_fence = Some(self.th[me].view.clone()),
                Ordering::AcqRel => {
                    self.fence_acq(me);
                    self.th[me].rel_fence = Some(self.th[me].view.clone());
                }
                Ordering::SeqCst => {
                    self.fence_sc_global(me);
                    if self.spec.mode == Mode::M2 {
                        self.sc_fence_event(me);
                    }
                    self.th[me].rel_fence = Some(self.th[me].view.clone());
                }
                _ => {}
            }
            return (0, true, 0);
        }
        let l = self.loc_id(a.addr, a.cur);
        let sc_mode = self.spec.mode == Mode::SC;
        let m2 = self.spec.mode == Mode::M2;
        match a.op {
            Op::Load => {
                if is_sc(a.success) {
                    self.fence_sc(me);
                }
                let hi = self.loc[l].hist.len() - 1;
                let lo = if sc_mode { hi } else { self.th[me].view.get(l) as usize };
                let mut cands: Vec<usize> = (lo..=hi).rev().collect();
                if m2 && is_sc(a.success) && cands.len() > 1 {
                    let before = cands.len();
                    cands.retain(|&i| i == hi || self.sc_read_allowed(me, l, i));
                    self.stats.sc_blocked += before - cands.len();
                }
                if m2 && cands.len() > 1 && self.th[me].view.fz.iter().any(|&n| n > 0) {
                    let before = cands.len();
                    cands.retain(|&i| i == hi || self.fence_read_allowed(me, l, i));
                    self.stats.sc_blocked += before - cands.len();
                }
                let stale = self.spec.stale as u32;
                let k = self.decide_prob(cands.len(), stale);
                if k > 0 {
                    self.stats.stale_reads += 1;
                    if is_sc(a.success) {
                        self.stats.stale_sc_reads += 1;
                    }
                }
                let i = cands[k];
                let (val, rel) = {
                    let m = &self.loc[l].hist[i];
                    (m.val, m.rel.clone())
                };
                if m2 {
                    self.fence_read_commit(me, l, i);
                }
                self.th[me].view.set(l, i as u32);
                self.acquire_from(me, rel, is_acq(a.success));
                if is_sc(a.success) {
                    self.fence_sc(me);
                    self.sc_event(me, l, Some(i), false);
                }
                (val, true, a.cur)
            }
            Op::Store => {
                if is_sc(a.success) {
                    self.fence_sc(me);
                }
                self.append(me, l, a.a, is_rel(a.success), None);
                if is_sc(a.success) {
                    self.fence_sc(me);
                    self.sc_event(me, l, None, true);
                }
                (0, true, a.a)
            }
            Op::Swap | Op::FetchAdd | Op::FetchSub | Op::FetchAnd | Op::FetchOr | Op::FetchXor | Op::FetchNand | Op::FetchMax | Op::FetchMin => {
                if is_sc(a.success) {
                    self.fence_sc(me);
                }
                let hi = self.loc[l].hist.len() - 1;
                let (old, rel) = {
                    let m = &self.loc[l].hist[hi];
                    (m.val, m.rel.clone())
                };
                self.acquire_from(me, rel.clone(), is_acq(a.success));
                let new = match a.op {
                    Op::Swap => a.a,
                    Op::FetchAdd => old.wrapping_add(a.a),
                    Op::FetchSub => old.wrapping_sub(a.a),
                    Op::FetchAnd => old & a.a,
                    Op::FetchOr => old | a.a,
                    Op::FetchXor => old ^ a.a,
                    Op::FetchNand => !(old & a.a),
                    Op::FetchMax => old.max(a.a),
                    _ => old.min(a.a),
                };
                self.append(me, l, new, is_rel(a.success), rel);
                if is_sc(a.success) {
                    self.fence_sc(me);
                    self.sc_event(me, l, Some(hi), true);
                }
                (old, true, new)
            }
            Op::Cas | Op::CasWeak => {
                let sc = is_sc(a.success) || is_sc(a.failure);
                if sc {
                    self.fence_sc(me);
                }
                let hi = self.loc[l].hist.len() - 1;
                let lo = if sc_mode { hi } else { self.th[me].view.get(l) as usize };
                let mut cands = vec![hi];
                for i in (lo..hi).rev() {
                    if self.loc[l].hist[i].val != a.a {
                        if m2 && is_sc(a.failure) && !self.sc_read_allowed(me, l, i) {
                            self.stats.sc_blocked += 1;
                            continue;
                        }
                        if m2 && !self.fence_read_allowed(me, l, i) {
                            self.stats.sc_blocked += 1;
                            continue;
                        }
                        cands.push(i);
                    }
                }
                let stale = self.spec.stale as u32;
                let k = self.decide_prob(cands.len(), stale);
                let i = cands[k];
                let (val, rel) = {
                    let m = &self.loc[l].hist[i];
                    (m.val, m.rel.clone())
                };
                let r = if i == hi && val == a.a {
                    // possible spurious failure of the weak form: at most once in a row, never
                    // while the thread runs alone (solo window) or under an explicit replay that
                    // has run out of decisions
                    let solo = self.freeze_state == 1;
                    let can = a.op == Op::CasWeak && !self.th[me].spurious_last && !solo && self.spec.spurious > 0;
                    let spurious = if can {
                        let p = self.spec.spurious as u32;
                        self.decide_prob(2, p) == 1
                    } else {
                        false
                    };
                    if spurious {
                        self.stats.spurious += 1;
                        self.th[me].spurious_last = true;
                        self.th[me].view.set(l, i as u32);
                        self.acquire_from(me, rel, is_acq(a.failure));
                        (val, false, a.cur)
                    } else {
                        self.th[me].spurious_last = false;
                        self.acquire_from(me, rel.clone(), is_acq(a.success));
                        self.append(me, l, a.b, is_rel(a.success), rel);
                        if is_sc(a.success) {
                            self.sc_event(me, l, Some(hi), true);
                        }
                        (val, true, a.b)
                    }
                } else {
                    self.th[me].spurious_last = false;
                    if i != hi {
                        self.stats.stale_cas += 1;
                        if m2 {
                            self.fence_read_commit(me, l, i);
                        }
                    }
                    self.th[me].view.set(l, i as u32);
                    self.acquire_from(me, rel, is_acq(a.failure));
                    if is_sc(a.failure) {
                        self.sc_event(me, l, Some(i), false);
                    }
                    (val, false, a.cur)
                };
                if sc {
                    self.fence_sc(me);
                }
                r
            }
            Op::GetMut | Op::Fence => unreachable!(),
        }
    }

    // ---- SeqCst event graph (M2) ----

    fn eco_before(pa: usize, wa: bool, pb: usize, wb: bool) -> bool {
        if wa && !wb {
            pa <= pb
        } else {
            pa < pb
        }
    }

    fn sc_preds(&self, l: usize, view: &View, pos: usize, writes: bool) -> Vec<usize> {
        let mut p = Vec::new();
        for t in 1..self.sc_ids.len() {
            let n = view.sc[t] as usize;
            if n > 0 {
                p.push(self.sc_ids[t][n - 1]);
            }
        }
        for &(id, pa, wa) in &self.loc[l].sc_evs {
            if Self::eco_before(pa, wa, pos, writes) {
                p.push(id);
            }
        }
        // [atomics.order]/4.3 for events created later: a fence that happens-before a read of an
        // earlier message precedes this event
        for (fs, i) in &self.loc[l].fenced_reads {
            if Self::eco_before(*i, false, pos, writes) {
                p.extend(fs.iter().copied());
            }
        }
        p
    }

    fn sc_back(&self, l: usize, pos: usize, writes: bool) -> Vec<usize> {
        let mut v: Vec<usize> = self.loc[l].sc_evs.iter().filter(|&&(_, pb, wb)| Self::eco_before(pos, writes, pb, wb)).map(|&(id, _, _)| id).collect();
        // [atomics.order]/4.2: this event is coherence-ordered before something a thread had
        // observed before its fence: it precedes that fence
        if !writes {
            v.extend(self.loc[l].fence_obs.iter().filter(|&&(_, p)| pos < p).map(|&(y, _)| y));
        }
        v
    }

    fn sc_reach(&self, from: &[usize], targets: &[usize]) -> bool {
        if from.is_empty() || targets.is_empty() {
            return false;
        }
        let mut seen = vec![false; self.sc_out.len()];
        let mut tgt = vec![false; self.sc_out.len()];
        for &t in targets {
            tgt[t] = true;
        }
        let mut stack: Vec<usize> = from.to_vec();
        while let Some(n) = stack.pop() {
            if tgt[n] {
                return true;
            }
            if seen[n] {
                continue;
            }
            seen[n] = true;
            for &m in &self.sc_out[n] {
                if !seen[m] {
                    stack.push(m);
                }
            }
        }
        false
    }

    fn sc_read_allowed(&self, me: usize, l: usize, i: usize) -> bool {
        let back = self.sc_back(l, i, false);
        if back.is_empty() {
            return true;
        }
        let mut v = self.th[me].view.clone();
        if let Some(r) = &self.loc[l].hist[i].rel {
            v.join(r);
        }
        let preds = self.sc_preds(l, &v, i, false);
        !self.sc_reach(&back, &preds)
    }

    /// the latest SeqCst fence of every thread that happens-before the current point of `me`
    fn fences_before(&self, me: usize) -> Vec<usize> {
        let mut v = Vec::new();
        for t in 1..self.fence_ids.len() {
            let n = self.th[me].view.fz[t] as usize;
            if n > 0 {
                v.push(self.fence_ids[t][n - 1]);
            }
        }
        v
    }

    /// [atomics.order]/4.3: a fence X happens-before the read A, A reads message i and is thereby
    /// coherence-ordered before every SeqCst event B that wrote / read something later: X must
    /// precede B in S. Not possible if B already reaches X.
    fn fence_read_allowed(&self, me: usize, l: usize, i: usize) -> bool {
        let fences = self.fences_before(me);
        if fences.is_empty() {
            return true;
        }
        let back: Vec<usize> = self.loc[l].sc_evs.iter().filter(|&&(_, pb, wb)| Self::eco_before(i, false, pb, wb)).map(|&(id, _, _)| id).collect();
        if back.is_empty() {
            return true;
        }
        !self.sc_reach(&back, &fences)
    }

    fn fence_read_commit(&mut self, me: usize, l: usize, i: usize) {
        let fences = self.fences_before(me);
        if fences.is_empty() {
            return;
        }
        let back: Vec<usize> = self.loc[l].sc_evs.iter().filter(|&&(_, pb, wb)| Self::eco_before(i, false, pb, wb)).map(|&(id, _, _)| id).collect();
        for &x in &fences {
            for &b in &back {
                self.sc_out[x].push(b);
            }
        }
        self.loc[l].fenced_reads.push((fences, i));
    }

    /// A SeqCst fence as an event of the graph: ordered after every SeqCst event that
    /// happens-before it, and ([atomics.order]/4.2) after every SeqCst event that is
    /// coherence-ordered before something this thread has already observed (over-approximated by
    /// the thread's view of each location: more edges = fewer behaviours = still sound).
    fn sc_fence_event(&mut self, me: usize) {
        let id = self.sc_out.len();
        self.sc_out.push(Vec::new());
        let view = self.th[me].view.clone();
        for t in 1..self.sc_ids.len() {
            let n = view.sc[t] as usize;
            if n > 0 {
                let p = self.sc_ids[t][n - 1];
                self.sc_out[p].push(id);
            }
        }
        for l in 0..self.loc.len() {
            let p = view.get(l) as usize;
            let evs: Vec<usize> = self.loc[l].sc_evs.iter().filter(|&&(_, pos, wr)| if wr { pos <= p } else { pos < p }).map(|&(e, _, _)| e).collect();
            for e in evs {
                self.sc_out[e].push(id);
            }
            self.loc[l].fence_obs.push((id, p));
        }
        self.sc_ids[me].push(id);
        self.th[me].view.sc[me] = self.sc_ids[me].len() as u32;
        self.fence_ids[me].push(id);
        self.th[me].view.fz[me] = self.fence_ids[me].len() as u32;
    }

    fn sc_event(&mut self, me: usize, l: usize, read_idx: Option<usize>, writes: bool) {
        if self.spec.mode != Mode::M2 {
            return;
        }
        let pos = if writes { self.loc[l].hist.len() - 1 } else { read_idx.unwrap() };
        let view = self.th[me].view.clone();
        let preds = self.sc_preds(l, &view, pos, writes);
        let back = self.sc_back(l, pos, writes);
        let id = self.sc_out.len();
        self.sc_out.push(back);
        for p in preds {
            self.sc_out[p].push(id);
        }
        self.sc_ids[me].push(id);
        self.th[me].view.sc[me] = self.sc_ids[me].len() as u32;
        self.loc[l].sc_evs.push((id, pos, writes));
        if writes {
            let last = self.loc[l].hist.len() - 1;
            self.loc[l].hist[last].scw = Some(id);
            if let Some(r) = self.loc[l].hist[last].rel.clone() {
                let mut r2 = (*r).clone();
                r2.sc[me] = self.sc_ids[me].len() as u32;
                self.loc[l].hist[last].rel = Some(Arc::new(r2));
            }
        }
    }

    // ---- scheduling ----

    fn enabled(&self) -> Vec<usize> {
        (1..self.th.len()).filter(|&t| self.th[t].st == TS::Run && !self.th[t].frozen && t != self.parked).collect()
    }

    fn unfreeze(&mut self) {
        for t in self.th.iter_mut() {
            t.frozen = false;
        }
        if self.freeze_state == 1 {
            self.freeze_state = 2;
        }
    }

    /// policy's choice of the next thread among `en` (returns an index into en, relative encoding
    /// is done by the caller)
    fn policy_pick(&mut self, en: &[usize], me: usize) -> usize {
        let mepos = en.iter().position(|&t| t == me);
        match self.spec.policy.clone() {
            Policy::Rand { p } => match mepos {
                Some(_) => {
                    let x = self.rnd();
                    if ((x & 0xff) as u32) < p as u32 {
                        1 + ((x >> 8) as usize % (en.len() - 1))
                    } else {
                        0
                    }
                }
                None => (self.rnd() >> 8) as usize % en.len(),
            },
            Policy::Pct { .. } => {
                let step = self.stats.steps;
                while let Some(&cp) = self.change_pts.first() {
                    if cp <= step {
                        self.change_pts.remove(0);
                        if me < self.prio.len() {
                            let low = self.prio.iter().copied().min().unwrap_or(0) - 1;
                            self.prio[me] = low;
                        }
                    } else {
                        break;
                    }
                }
                let best = en.iter().copied().max_by_key(|&t| self.prio[t]).unwrap();
                let bpos = en.iter().position(|&t| t == best).unwrap();
                match mepos {
                    Some(p) => (bpos + en.len() - p) % en.len(),
                    None => bpos,
                }
            }
            Policy::Stall { victim, .. } | Policy::AbaStall { victim, .. } => {
                let v = victim as usize + 1;
                // during the burst the victim runs; otherwise a mild random schedule
                if self.stall_phase == 2 && en.contains(&v) {
                    let vpos = en.iter().position(|&t| t == v).unwrap();
                    return match mepos {
                        Some(p) => (vpos + en.len() - p) % en.len(),
                        None => vpos,
                    };
                }
                match mepos {
                    Some(_) => {
                        let x = self.rnd();
                        if (x & 0xff) < 20 {
                            1 + ((x >> 8) as usize % (en.len() - 1))
                        } else {
                            0
                        }
                    }
                    None => (self.rnd() >> 8) as usize % en.len(),
                }
            }
            Policy::Burst { reader, k } => {
                let r = reader as usize + 1;
                let target = if me == r && self.th[r].op == OpKind::Load && en.len() > 1 {
                    // pick a writer and let it complete k operations
                    let others: Vec<usize> = en.iter().copied().filter(|&t| t != r).collect();
                    let w = others[(self.rnd() >> 8) as usize % others.len()];
                    self.burst_w = w;
                    self.burst_start = self.th[w].ops_done;
                    w
                } else if me == self.burst_w && self.burst_w != NONE_T {
                    let done = self.th[me].ops_done - self.burst_start;
                    if (done >= k as usize || self.th[me].st != TS::Run) && en.contains(&r) {
                        if self.th[r].op == OpKind::Load {
                            self.stats.burst_writes_in_load += done;
                        }
                        self.burst_w = NONE_T;
                        r
                    } else if en.contains(&me) {
                        me
                    } else {
                        en[(self.rnd() >> 8) as usize % en.len()]
                    }
                } else if en.contains(&me) {
                    let x = self.rnd();
                    if (x & 0xff) < 24 {
                        en[(x >> 8) as usize % en.len()]
                    } else {
                        me
                    }
                } else {
                    en[(self.rnd() >> 8) as usize % en.len()]
                };
                let tpos = en.iter().position(|&t| t == target).unwrap_or(0);
                match mepos {
                    Some(p) => (tpos + en.len() - p) % en.len(),
                    None => tpos,
                }
            }
        }
    }
}

fn wake_all(r: &Rt) {
    for c in &r.cv {
        c.notify_all();
    }
    r.done.notify_all();
}

/// Pick the next thread to run and hand over. Returns holding the token (or with abort set).
fn sched<'a>(r: &'a Rt, mut st: MutexGuard<'a, State>, me: usize) -> MutexGuard<'a, State> {
    // freeze trigger
    if st.freeze_state == 0 {
        if let Some(f) = st.spec.freeze.clone() {
            if st.stats.steps >= f.at as usize {
                let keep = f.keep as usize + 1;
                if keep < st.th.len() && st.th[keep].st == TS::Run && st.th[keep].started {
                    st.freeze_state = 1;
                    st.freeze_ops0 = st.th[keep].ops_done;
                    let n = st.th.len();
                    let mut mid = 0;
                    for t in 1..n {
                        if t != keep {
                            st.th[t].frozen = true;
                            if st.th[t].op != OpKind::None && st.th[t].st == TS::Run {
                                mid += 1;
                            }
                        }
                    }
                    st.stats.frozen_mid_op += mid;
                    // the kept thread's current op (if any) is measured from here
                    if st.th[keep].op_step0 != usize::MAX {
                        st.th[keep].op_step0 = st.th[keep].steps;
                    }
                } else {
                    st.freeze_state = 2;
                }
            }
        }
    }
    let mut en = st.enabled();
    if en.is_empty() && st.parked != NONE_T {
        // everybody else is finished or blocked: the stall is over
        st.parked = NONE_T;
        st.stall_phase = 4;
        en = st.enabled();
    }
    if en.is_empty() {
        // nothing runnable: if threads are frozen, the window is over
        if st.th.iter().any(|t| t.frozen) {
            st.unfreeze();
            en = st.enabled();
        }
    }
    if en.is_empty() {
        let all_done = (1..st.th.len()).all(|t| st.th[t].st == TS::Done);
        if !all_done && st.th[me].st != TS::Run {
            // everybody blocked: harness-level deadlock (should not happen)
            st.deadlock = true;
            st.budget_hit = true;
            st.abort = true;
            wake_all(r);
        }
        st.cur = NONE_T;
        r.done.notify_all();
        return st;
    }
    let mepos = en.iter().position(|&t| t == me);
    let d = st.decide_with(en.len(), |s| s.policy_pick(&en, me));
    let next = match mepos {
        Some(p) => en[(p + d) % en.len()],
        None => en[d % en.len()],
    };
    if next != me {
        st.stats.switches += 1;
        st.cur = next;
        r.cv[next].notify_all();
        if st.th[me].st == TS::Done {
            return st;
        }
        while st.cur != me && !st.abort {
            st = r.cv[me].wait(st).unwrap();
        }
    } else {
        st.cur = me;
    }
    st
}

/// After an abort (violation found, budget exhausted) the hook becomes pass-through: every thread
/// finishes its current crate operation on the real atomics and stops at its next harness-level
/// operation boundary. Nothing is unwound (objects are never freed during an execution, so
/// continuing after a logical use-after-free is memory-safe).
fn check_abort(st: MutexGuard<State>) -> Option<MutexGuard<State>> {
    if st.abort {
        return None;
    }
    Some(st)
}

fn short(site: &std::panic::Location) -> String {
    format!("{}:{}", site.file().rsplit('/').next().unwrap_or(""), site.line())
}

fn refresh_roles() -> Vec<verif::NodeInfo> {
    PASS.with(|p| p.set(true));
    let n = verif::nodes();
    PASS.with(|p| p.set(false));
    n
}

fn role_of(name: &str) -> Role {
    match name {
        "fast_slot" => Role::FastSlot,
        "help_slot" => Role::HelpSlot,
        "control" => Role::Control,
        "active_addr" => Role::ActiveAddr,
        "handover" => Role::Handover,
        "space_offer" => Role::SpaceOffer,
        "in_use" => Role::InUse,
        "active_writers" => Role::ActiveWriters,
        _ => Role::Unknown,
    }
}

/// the crate's internal encodings, read through the hook (never hard-coded here: changing one of
/// these constants is a benign change of the crate)
struct Enc {
    gen_tag: usize,
    replacement_tag: usize,
    tag_mask: usize,
    debt_none: usize,
    idle: usize,
    node_unused: usize,
    node_used: usize,
}
fn enc() -> &'static Enc {
    static E: std::sync::OnceLock<Enc> = std::sync::OnceLock::new();
    E.get_or_init(|| {
        let e = arc_swap::verif::encodings();
        Enc { gen_tag: e.control_gen_tag, replacement_tag: e.control_replacement_tag, tag_mask: e.control_tag_mask, debt_none: e.debt_none, idle: e.control_idle, node_unused: e.node_unused, node_used: e.node_used }
    })
}

/// classification of a step from its role (counts used for non-triviality and for O-nodes)
fn classify(st: &mut State, me: usize, a: &Access, role: Role, node: usize, res: (usize, bool, usize)) {
    let opk = st.th[me].op;
    match role {
        Role::Storage => {
            let is_write = matches!(a.op, Op::Swap | Op::Store) || (matches!(a.op, Op::Cas | Op::CasWeak) && res.1);
            if is_write {
                let n = st.th.len();
                let mut any_w = false;
                for t in 1..n {
                    if t == me || st.th[t].st == TS::Done {
                        continue;
                    }
                    if st.th[t].op == OpKind::Load && st.th[t].op_cont == a.addr && !st.th[t].op_overlapped {
                        st.th[t].op_overlapped = true;
                        st.stats.overlap_rw += 1;
                    }
                    if st.th[t].op == OpKind::Write && st.th[t].op_cont == a.addr {
                        any_w = true;
                    }
                }
                if any_w {
                    st.stats.writes_overlapped += 1;
                }
            }
            if matches!(a.op, Op::Cas | Op::CasWeak) && !res.1 && res.0 != a.a {
                st.stats.cas_interfered += 1;
            }
        }
        Role::FastSlot | Role::HelpSlot => {
            if matches!(a.op, Op::Cas) {
                if opk == OpKind::Load && role == Role::FastSlot {
                    st.stats.confirm_failed += 1;
                }
                if res.1 && a.b == enc().debt_none && opk == OpKind::Write {
                    st.stats.paid_by_writer += 1;
                    // whose debt was it? mark the owner thread's op as paid
                    if let Some(&o) = st.owner.get(&node) {
                        if o != me {
                            st.th[o].op_paid = true;
                            if role == Role::FastSlot && st.th[o].op == OpKind::Load && st.th[o].op_cont != st.th[me].op_cont && st.th[o].op_cont != 0 {
                                st.stats.foreign_pay_unconfirmed += 1;
                            }
                        }
                    }
                }
            }
            if a.op == Op::Swap && a.a != enc().debt_none {
                // a slot claim: must be made by the thread that owns the node
                match st.owner.get(&node) {
                    Some(&o) if o == me => {}
                    other => {
                        let msg = format!("thread t{} claimed a debt slot of node {:x} owned by {:?} at {}", me, node, other, short(a.site));
                        st.fail("O-nodes", "C11", msg);
                    }
                }
            }
        }
        Role::Control => {
            if a.op == Op::Swap && a.a & enc().tag_mask == enc().gen_tag {
                st.stats.fallback += 1;
                st.th[me].op_fallback = true;
                if a.a == enc().gen_tag {
                    st.stats.gen_wrapped += 1;
                    if opk == OpKind::Write {
                        st.stats.gen_wrapped_nested += 1;
                    }
                }
                // the same generation published twice on one node by one owner
                if !st.gen_seen.insert((node, me, a.a)) {
                    st.stats.gen_reused += 1;
                }
                match st.owner.get(&node) {
                    Some(&o) if o == me => {}
                    other => {
                        let msg = format!("thread t{} published a read intent on node {:x} owned by {:?} at {}", me, node, other, short(a.site));
                        st.fail("O-nodes", "C11", msg);
                    }
                }
            }
            if a.op == Op::Load && res.0 & enc().tag_mask == enc().gen_tag && opk == OpKind::Write {
                st.stats.help_seen_intent += 1;
            }
            if a.op == Op::Cas && res.1 && a.b & enc().tag_mask == enc().replacement_tag {
                st.stats.help_delivered += 1;
            }
            if a.op == Op::Cas && !res.1 && a.b & enc().tag_mask == enc().replacement_tag {
                st.stats.help_rejected += 1;
            }
            if a.op == Op::Swap && a.a == enc().idle && res.0 & enc().tag_mask == enc().replacement_tag {
                st.stats.help_accepted += 1;
                st.th[me].op_helped = true;
            }
        }
        Role::ActiveAddr => {
            if a.op == Op::Load && opk == OpKind::Write && res.0 != st.th[me].op_cont && res.0 != 0 {
                st.stats.help_other_cont += 1;
            }
        }
        Role::InUse => {
            // Ownership by value, not by instruction: whatever successful write makes the state
            // USED is a claim by the writing thread, whatever successful write by the owner makes
            // it something else is a release (the crate claims with a compare-exchange from UNUSED
            // or - transiently, in check_cooldown - from COOLDOWN, and releases with a swap or a
            // store; a refactoring that uses other instructions for the same transitions must not
            // look like a second owner).
            let e = enc();
            let wrote: Option<usize> = match a.op {
                Op::Cas | Op::CasWeak if res.1 => Some(a.b),
                Op::Swap | Op::Store => Some(a.a),
                _ => None,
            };
            if let Some(v) = wrote {
                if v == e.node_used {
                    if let Some(&o) = st.owner.get(&node) {
                        if o != me {
                            let msg = format!("node {:x} claimed by t{} while still owned by t{} ({})", node, me, o, short(a.site));
                            st.fail("O-nodes", "C11", msg);
                        }
                    }
                    st.owner.insert(node, me);
                    st.th[me].node = node;
                    if res.0 == e.node_unused {
                        st.stats.node_reclaimed += 1;
                        node_acquired(st, me);
                    } else {
                        let owners = st.owner.len();
                        if owners > st.stats.peak_alive {
                            st.stats.peak_alive = owners;
                        }
                    }
                } else if st.owner.get(&node) == Some(&me) {
                    st.owner.remove(&node);
                    if st.th[me].node == node {
                        st.th[me].node = 0;
                    }
                }
            }
        }
        Role::ListHead => {
            if matches!(a.op, Op::Cas | Op::CasWeak) && res.1 {
                st.roles_dirty = true;
                st.stats.node_created += 1;
                st.nnodes += 1;
                st.owner.insert(a.b, me);
                st.th[me].node = a.b;
                node_acquired(st, me);
            }
            if a.op == Op::Load && st.th[me].node == 0 && !st.th[me].acquiring {
                // a traversal by a thread without a node: start of an acquisition (or a writer's
                // walk; harmless over-approximation for the overlap accounting)
                st.th[me].acquiring = true;
                st.th[me].acq_overlap = others_busy(st, me);
                // threads that own a node or are looking for one right now
                let n = st.owner.len() + st.th.iter().filter(|t| t.acquiring).count();
                if n > st.stats.peak_alive {
                    st.stats.peak_alive = n;
                }
            }
        }
        _ => {}
    }
    // while a thread is acquiring a node, note whether anybody else is inside a write / exit /
    // acquisition (used only for the sound form of the space bound, C11)
    let n = st.th.len();
    for t in 1..n {
        if t != me && st.th[t].acquiring && !st.th[t].acq_overlap {
            // any step of another thread inside the crate counts (a load may give its node up
            // when the generation wraps, a writer holds reservations, an exit cools a node down)
            st.th[t].acq_overlap = true;
        }
    }
}

fn others_busy(st: &State, me: usize) -> bool {
    (1..st.th.len()).any(|t| t != me && st.th[t].st != TS::Done && st.th[t].started && (st.th[t].op != OpKind::None || st.th[t].exiting || st.th[t].acquiring))
}

fn node_acquired(st: &mut State, me: usize) {
    if st.th[me].acquiring {
        st.th[me].acquiring = false;
        if st.th[me].acq_overlap {
            st.stats.acq_overlapped += 1;
        }
    } else {
        // acquisition we did not see the start of: count conservatively as overlapped
        st.stats.acq_overlapped += 1;
    }
    let owners = st.owner.len();
    if owners > st.stats.peak_alive {
        st.stats.peak_alive = owners;
    }
}

pub fn hook(a: &Access) -> Option<(usize, bool, usize)> {
    if PASS.with(|p| p.get()) {
        return None;
    }
    let me = VT.with(|v| v.get());
    if me == NONE_T {
        return None;
    }
    let r = rt();
    let st = r.m.lock().unwrap();
    if !st.on {
        return None;
    }
    let st = check_abort(st)?;
    let st = sched(r, st, me);
    let mut st = check_abort(st)?;
    st.stats.steps += 1;
    st.clock += 1;
    st.th[me].steps += 1;
    if st.stats.steps > st.spec.budget as usize {
        st.budget_hit = true;
        st.abort = true;
        wake_all(r);
        check_abort(st);
        return None;
    }
    // solo-window bound (C08/C09): a thread that runs alone must finish its operation
    if st.freeze_state == 1 && st.step_limit_solo > 0 && st.th[me].op != OpKind::None && st.th[me].op_step0 != usize::MAX {
        let used = st.th[me].steps - st.th[me].op_step0;
        if used > st.step_limit_solo {
            let msg = format!("thread t{} running alone (all others suspended) did not finish its {:?} operation within {} own steps (last step at {})", me, st.th[me].op, used, short(a.site));
            st.fail("O-steps", "C09", msg);
            wake_all(r);
            check_abort(st);
            return None;
        }
    }
    // The same bound when the thread is alone for real: every other thread has finished or waits
    // at a harness-level point (a join, a quiescence point, the finalizer) - nobody is suspended
    // inside the crate, nobody is parked by a schedule policy. Then nothing can change any more,
    // and an operation that does not finish within the solo bound waits for something nobody is
    // going to do (its own guards, say): C09 whatever the schedule.
    if st.step_limit_solo > 0 && st.th[me].op != OpKind::None && st.th[me].op_step0 != usize::MAX {
        let n = st.th.len();
        let alone = st.parked == NONE_T && (1..n).all(|t| t == me || (st.th[t].st != TS::Run && !st.th[t].frozen));
        if alone {
            st.th[me].alone_steps += 1;
            if st.th[me].alone_steps > st.step_limit_solo {
                let msg = format!("thread t{} did not finish its {:?} operation within {} own steps although every other thread had finished or was waiting outside the crate (last step at {})", me, st.th[me].op, st.th[me].alone_steps, short(a.site));
                st.fail("O-steps", "C09", msg);
                wake_all(r);
                check_abort(st);
                return None;
            }
        } else {
            st.th[me].alone_steps = 0;
        }
    }
    // wait-free bound for loads on a warmed-up thread (C08)
    if st.load_bound > 0 && st.th[me].op == OpKind::Load && st.th[me].op_step0 != usize::MAX {
        let used = st.th[me].steps - st.th[me].op_step0;
        // 4 * (number of borrow slots of a node, read from the crate) + 48
        let bound = st.load_bound.max(4 * st.nslots + 48);
        if used > bound {
            let msg = format!("load by t{} took more than {} own steps (last step at {})", me, bound, short(a.site));
            st.fail("O-steps", "C08", msg);
            wake_all(r);
            check_abort(st);
            return None;
        }
    }
    // role lookup (refresh the node layout when a new node appeared)
    let mut rn = st.roles.get(&a.addr).copied();
    if rn.is_none() && st.roles_dirty && a.addr != 0 {
        drop(st);
        let nodes = refresh_roles();
        st = r.m.lock().unwrap();
        st.roles_dirty = false;
        for n in &nodes {
            let mut slots = 0;
            for (name, addr) in &n.layout {
                let role = role_of(name);
                if matches!(role, Role::FastSlot | Role::HelpSlot) {
                    slots += 1;
                }
                st.roles.insert(*addr, (role, n.addr));
                if let Some(&l) = st.locs.get(addr) {
                    st.loc[l].role = role;
                    st.loc[l].node = n.addr;
                }
            }
            st.nslots = slots;
        }
        st.nnodes = nodes.len();
        rn = st.roles.get(&a.addr).copied();
    }
    let (role, node) = rn.unwrap_or((Role::Unknown, 0));
    if let Policy::AbaStall { victim, park_role, park_nth, .. } = st.spec.policy.clone() {
        let v = victim as usize + 1;
        if st.stall_phase == 0 && me == v && role == park_role && matches!(a.op, Op::Cas | Op::CasWeak) {
            st.stall_count += 1;
            if st.stall_count >= park_nth.max(1) as usize {
                // park before the exchange is performed
                st.stall_phase = 1;
                st.stall_count = 0;
                st.parked = v;
                st.aba_addr = a.addr;
                st.aba_expected = a.a;
                st.aba_changed = false;
                st.stats.stall_parked += 1;
                let st2 = sched(r, st, me);
                st = check_abort(st2)?;
            }
        }
    }
    let res = st.apply(me, a);
    if st.trace_on {
        let s = format!(
            "t{} {:<8} {:?}{} a={:x} b={:x} {:?}/{:?} -> {:x} ok={} [{}]",
            me,
            format!("{:?}", a.op),
            role,
            if node != 0 { format!("@{:x}", node & 0xffff) } else { String::new() },
            a.a,
            a.b,
            a.success,
            a.failure,
            res.0,
            res.1,
            short(a.site)
        );
        st.trace.push(s);
    }
    classify(&mut st, me, a, role, node, res);
    if role != Role::Unknown && role != Role::Litmus && res.1 && !matches!(a.op, Op::Load | Op::Fence | Op::GetMut) {
        for t in 1..st.th.len() {
            if t != me && st.th[t].op != OpKind::None {
                st.th[t].op_interf += 1;
            }
        }
    }
    if let Policy::Stall { victim, park_role, park_nth, wake_role, wake_nth, run } = st.spec.policy.clone() {
        let v = victim as usize + 1;
        match st.stall_phase {
            0 if me == v && role == park_role => {
                st.stall_count += 1;
                if st.stall_count >= park_nth.max(1) as usize {
                    st.stall_phase = 1;
                    st.stall_count = 0;
                    st.parked = v;
                    st.stats.stall_parked += 1;
                }
            }
            1 if me != v && role == wake_role && (node == 0 || node == st.th[v].node || st.th[v].node == 0) => {
                st.stall_count += 1;
                if st.stall_count >= wake_nth.max(1) as usize {
                    st.stall_phase = 2;
                    st.parked = NONE_T;
                    st.stall_burst = run.max(1) as usize;
                    st.stall_waker = me;
                    st.stall_waker_ops = st.th[me].ops_done;
                    st.stats.stall_woken += 1;
                }
            }
            2 if me == v => {
                st.stall_burst -= 1;
                if st.stall_burst == 0 {
                    // park again until the waking thread has finished its operation
                    st.stall_phase = 3;
                    st.parked = v;
                }
            }
            3 => {
                let w = st.stall_waker;
                if w == NONE_T || st.th[w].st != TS::Run || st.th[w].ops_done > st.stall_waker_ops {
                    st.stall_phase = 4;
                    st.parked = NONE_T;
                }
            }
            _ => {}
        }
    }
    if let Policy::AbaStall { victim, run, .. } = st.spec.policy.clone() {
        let v = victim as usize + 1;
        match st.stall_phase {
            1 if me != v && a.addr == st.aba_addr => {
                if res.2 != st.aba_expected {
                    st.aba_changed = true;
                } else if st.aba_changed {
                    // A ... B ... A: the stale expectation holds again
                    st.stall_phase = 2;
                    st.parked = NONE_T;
                    st.stall_burst = run.max(1) as usize;
                    st.stats.stall_woken += 1;
                }
            }
            2 if me == v => {
                st.stall_burst -= 1;
                if st.stall_burst == 0 {
                    st.stall_phase = 4;
                }
            }
            _ => {}
        }
    }
    if st.abort {
        wake_all(r);
        check_abort(st);
        return Some(res);
    }
    Some(res)
}

/// Harness-side atomic access (for the instrumented count and litmus tests).
pub fn h_access(addr: usize, cur: usize, op: Op, a: usize, b: usize, s: Ordering, f: Ordering, site: &'static std::panic::Location<'static>) -> Option<(usize, bool, usize)> {
    hook(&Access { addr, op, cur, a, b, success: s, failure: f, site })
}

pub fn h_fence_acq() {
    let me = VT.with(|v| v.get());
    if me == NONE_T {
        return;
    }
    let mut st = rt().m.lock().unwrap();
    if st.on && !st.abort {
        st.fence_acq(me);
    }
}

/// Run f with the state locked, if the calling thread is a live vthread in an active execution.
pub fn with_state<R>(f: impl FnOnce(&mut State, usize) -> R) -> Option<R> {
    let me = VT.with(|v| v.get());
    if me == NONE_T {
        return None;
    }
    let mut st = rt().m.lock().unwrap();
    if !st.on || st.abort {
        return None;
    }
    Some(f(&mut st, me))
}

/// Like with_state but also for the setup thread (id 0) before the execution starts.
pub fn with_state_setup<R>(f: impl FnOnce(&mut State, usize) -> R) -> Option<R> {
    let me = VT.with(|v| v.get());
    let me = if me == NONE_T { 0 } else { me };
    let mut st = rt().m.lock().unwrap();
    if !st.on || st.abort {
        return None;
    }
    Some(f(&mut st, me))
}

pub fn report(oracle: &str, prop: &str, msg: String) {
    let r = rt();
    let mut st = r.m.lock().unwrap();
    if st.on {
        st.fail(oracle, prop, msg);
        wake_all(r);
    }
}

pub fn aborted() -> bool {
    let st = rt().m.lock().unwrap();
    st.abort
}

/// A scheduling point without a memory access (mailbox, op boundary).
pub fn yield_point() {
    let me = VT.with(|v| v.get());
    if me == NONE_T {
        return;
    }
    let r = rt();
    let st = r.m.lock().unwrap();
    if !st.on {
        return;
    }
    let Some(st) = check_abort(st) else { return };
    let st = sched(r, st, me);
    check_abort(st);
}

pub fn op_begin(kind: OpKind, cont: usize, warmed: bool) {
    crate::varc::ty_enter_addr(cont);
    with_state(|st, me| {
        let th = &mut st.th[me];
        th.op = kind;
        th.op_cont = cont;
        th.op_step0 = if kind == OpKind::Load && !warmed { usize::MAX } else { th.steps };
        th.op_overlapped = false;
        th.op_interf = 0;
        th.alone_steps = 0;
        th.op_fallback = false;
        th.op_helped = false;
        th.op_paid = false;
        th.op_gstep0 = st.stats.steps;
    });
}

#[derive(Clone, Copy, Debug, Default)]
pub struct OpInfo {
    pub steps: usize,
    pub overlapped: bool,
    pub fallback: bool,
    pub helped: bool,
    pub paid: bool,
    pub solo: bool,
}

/// loads and writes completed by the calling thread so far
pub fn crate_ops_done() -> usize {
    with_state(|st, me| st.th[me].crate_ops_done).unwrap_or(0)
}

pub fn op_end() -> OpInfo {
    crate::varc::ty_leave();
    with_state(|st, me| {
        let kind = st.th[me].op;
        let s0 = st.th[me].op_step0;
        let used = if s0 == usize::MAX { 0 } else { st.th[me].steps - s0 };
        let info = OpInfo { steps: used, overlapped: st.th[me].op_overlapped, fallback: st.th[me].op_fallback, helped: st.th[me].op_helped, paid: st.th[me].op_paid, solo: st.freeze_state == 1 };
        if kind == OpKind::Load && used > st.stats.max_load_steps {
            st.stats.max_load_steps = used;
        }
        if st.freeze_state == 1 && kind != OpKind::None {
            if used > st.stats.max_solo_steps {
                st.stats.max_solo_steps = used;
            }
            st.stats.solo_ops += 1;
        }
        st.th[me].op = OpKind::None;
        st.th[me].ops_done += 1;
        if matches!(kind, OpKind::Load | OpKind::Write) {
            st.th[me].crate_ops_done += 1;
        }
        // end of the solo window?
        if st.freeze_state == 1 {
            if let Some(f) = st.spec.freeze.clone() {
                if me == f.keep as usize + 1 && st.th[me].ops_done - st.freeze_ops0 >= f.n_ops as usize {
                    st.unfreeze();
                }
            }
        }
        info
    })
    .unwrap_or_default()
}

// ---- race cells ----
pub fn cell_new(st: &mut State, me: usize) -> usize {
    let id = st.race_cells.len();
    let mut c = RaceCell::default();
    c.w = (me, st.th[me].view.vc[me]);
    st.race_cells.push(c);
    id
}
pub fn cell_read(st: &mut State, me: usize, id: usize) -> Result<(), String> {
    let (wt, we) = st.race_cells[id].w;
    if we > st.th[me].view.vc[wt] {
        return Err(format!("read by t{} is not ordered after the write by t{}@{}", me, wt, we));
    }
    st.race_cells[id].r[me] = st.th[me].view.vc[me];
    Ok(())
}
pub fn cell_write(st: &mut State, me: usize, id: usize) -> Result<(), String> {
    let (wt, we) = st.race_cells[id].w;
    if we > st.th[me].view.vc[wt] {
        return Err(format!("write by t{} is not ordered after the write by t{}@{}", me, wt, we));
    }
    for t in 0..MAXT {
        if st.race_cells[id].r[t] > st.th[me].view.vc[t] {
            return Err(format!("write by t{} is not ordered after the read by t{}@{}", me, t, st.race_cells[id].r[t]));
        }
    }
    st.race_cells[id].w = (me, st.th[me].view.vc[me]);
    Ok(())
}

// ---- release/acquire edges made by the harness (mailboxes) ----

/// snapshot of the calling thread's view for a release edge; advances the epoch
pub fn release_view() -> Option<View> {
    with_state(|st, me| {
        let v = st.th[me].view.clone();
        st.th[me].view.vc[me] += 1;
        v
    })
}
pub fn acquire_view(v: &View) {
    with_state(|st, me| st.th[me].view.join(v));
}

/// completion event of an operation: returns (thread, epoch) and advances the epoch
pub fn stamp() -> Option<(usize, u32, usize)> {
    with_state(|st, me| {
        let e = st.th[me].view.vc[me];
        st.th[me].view.vc[me] += 1;
        st.clock += 1;
        (me, e, st.clock)
    })
}
pub fn my_vc() -> Option<([u32; MAXT], usize)> {
    with_state(|st, me| {
        st.clock += 1;
        (st.th[me].view.vc, st.clock)
    })
}

// ---- thread lifecycle ----

/// operations to run in the sentinel's destructor (after the crate's own thread-local is gone)
pub type DtorFn = Box<dyn FnOnce()>;

struct Sentinel {
    ops: std::cell::RefCell<Option<DtorFn>>,
}

/// Register operations that run when the calling thread's thread-locals are destroyed, after the
/// crate's own thread-local (the sentinel is registered first, hence destroyed last).
pub fn set_dtor_ops(f: DtorFn) {
    SENT.with(|s| *s.ops.borrow_mut() = Some(f));
}

impl Drop for Sentinel {
    fn drop(&mut self) {
        let me = VT.with(|v| v.get());
        if me == NONE_T {
            return;
        }
        // operations that run after the crate's thread-local storage was destroyed
        if let Some(f) = self.ops.get_mut().take() {
            let live = { !rt().m.lock().unwrap().abort };
            if live {
                // never unwind out of a TLS destructor
                let _ = std::panic::catch_unwind(std::panic::AssertUnwindSafe(f));
            }
        }
        let r = rt();
        let mut st = r.m.lock().unwrap();
        st.th[me].st = TS::Done;
        st.th[me].exiting = false;
        st.th[me].op = OpKind::None;
        VT.with(|v| v.set(NONE_T));
        let n = st.th.len();
        let myview = st.th[me].view.clone();
        for t in 1..n {
            if let Some((d, hb)) = st.th[t].dep {
                if d == me && st.th[t].st == TS::BlockedDep {
                    st.th[t].dep = None;
                    st.th[t].st = TS::Run;
                    if hb {
                        st.th[t].view.join(&myview);
                    }
                }
            }
        }
        wake_waiters(&mut st);
        if st.abort {
            wake_all(r);
            return;
        }
        drop(sched(r, st, me));
    }
}
thread_local! {
    static SENT: Sentinel = const { Sentinel { ops: std::cell::RefCell::new(None) } };
}

/// release threads blocked at a quiescence point / the finalizer when everybody else is parked
fn wake_waiters(st: &mut State) {
    let n = st.th.len();
    // finalizer: all others done
    for f in 1..n {
        if st.th[f].st == TS::BlockedFinal && (1..n).all(|t| t == f || st.th[t].st == TS::Done) {
            let views: Vec<View> = (1..n).filter(|&x| x != f).map(|x| st.th[x].view.clone()).collect();
            for v in views {
                st.th[f].view.join(&v);
            }
            st.th[f].st = TS::Run;
        }
    }
    // quiescence: nobody is running
    let anyq = (1..n).any(|t| st.th[t].st == TS::BlockedQuiesce);
    if anyq && (1..n).all(|t| st.th[t].st != TS::Run) {
        if let Some(h) = st.quiesce_hook {
            h(st);
        }
        for t in 1..n {
            if st.th[t].st == TS::BlockedQuiesce {
                st.th[t].st = TS::Run;
            }
        }
    }
}

/// Entry of a vthread: registers, waits for the token.
pub fn vthread_enter(id: usize) {
    crate::varc::ty_reset();
    SENT.with(|_| ());
    // Make sure the crate's own thread-local exists (without a node) and is registered *after* the
    // sentinel, so that it is destroyed before it. A thread whose first use of the crate happened
    // inside the sentinel's destructor would otherwise create that thread-local during the
    // destructor phase and have it destroyed after the thread left the scheduler - its node
    // release would then run un-modelled, concurrently with the other threads (found as a
    // non-reproducible "active_writers == 1 at the end" alarm).
    let _ = verif::thread_node();
    VT.with(|v| v.set(id));
    EXITING.with(|e| e.set(false));
    let r = rt();
    let mut st = r.m.lock().unwrap();
    while st.cur != id && !st.abort {
        st = r.cv[id].wait(st).unwrap();
    }
    if !st.abort {
        st.th[id].started = true;
        st.alive += 1;
    }
    check_abort(st);
}

/// The thread's program is over; its thread-locals are about to be destroyed.
pub fn vthread_exiting() {
    EXITING.with(|e| e.set(true));
    let me = VT.with(|v| v.get());
    if me == NONE_T {
        return;
    }
    let mut st = rt().m.lock().unwrap();
    if me < st.th.len() {
        st.th[me].exiting = true;
        st.th[me].op = OpKind::None;
    }
}

fn block_until_run(me: usize, how: TS) {
    let r = rt();
    let mut st = r.m.lock().unwrap();
    if !st.on || st.abort {
        drop(check_abort(st));
        return;
    }
    st.th[me].st = how;
    wake_waiters(&mut st);
    if st.th[me].st != TS::Run {
        st = sched(r, st, me);
        while (st.cur != me || st.th[me].st != TS::Run) && !st.abort {
            st = r.cv[me].wait(st).unwrap();
        }
    }
    check_abort(st);
}

/// Block until all other vthreads are Done (used by the finalizer); joins their views.
pub fn wait_others_done() {
    let me = VT.with(|v| v.get());
    if me == NONE_T {
        return;
    }
    block_until_run(me, TS::BlockedFinal);
}

/// Quiescence point: returns once every other thread is parked (here, waiting to start, finished).
pub fn quiesce() {
    let me = VT.with(|v| v.get());
    if me == NONE_T {
        return;
    }
    block_until_run(me, TS::BlockedQuiesce);
}

/// Called by main: start the execution by giving the token to the first thread, wait for completion.
/// Returns false if the watchdog fired (execution did not finish in `max_wait`).
pub fn run_to_completion(max_wait: std::time::Duration) -> bool {
    let r = rt();
    let mut st = r.m.lock().unwrap();
    let en = st.enabled();
    let d = st.decide_with(en.len(), |s| (s.rnd() >> 8) as usize % en.len());
    let first = en[d % en.len()];
    st.cur = first;
    r.cv[first].notify_all();
    let t0 = std::time::Instant::now();
    loop {
        let n = st.th.len();
        if (1..n).all(|t| st.th[t].st == TS::Done) {
            break;
        }
        st = r.done.wait_timeout(st, std::time::Duration::from_millis(20)).unwrap().0;
        if t0.elapsed() > max_wait {
            st.abort = true;
            st.budget_hit = true;
            wake_all(r);
            return false;
        }
    }
    st.on = false;
    true
}
