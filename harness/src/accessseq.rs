//! E2 / C17 (sequential part): projection chains built from the Access machinery (Map of depth
//! 1-4, through references, Arc, Box<dyn DynAccess>, AccessConvert, Constant): every guard
//! dereferences for its whole life to the projection (value and address) of the one snapshot that
//! was current when it was loaded, keeps that snapshot alive, and static/dynamic dispatch agree.
#![allow(dead_code)]
use arc_swap::access::{Access, AccessConvert, Constant, DynAccess, Map};
use arc_swap::ArcSwap;
use proptest::prelude::*;
use serde::{Deserialize, Serialize};
use std::ops::Deref;
use std::sync::{Arc, Weak};

pub struct Inner {
    pub x: u32,
    pub tag: String,
}
pub struct Mid {
    pub inner: Inner,
    pub pad: [u8; 3],
}
pub struct Cfg {
    pub mid: Mid,
    pub list: Vec<u32>,
}

fn mk(x: u32) -> Arc<Cfg> {
    Arc::new(Cfg { mid: Mid { inner: Inner { x, tag: format!("t{}", x) }, pad: [0; 3] }, list: vec![x; 3] })
}

pub const SHAPES: u8 = 10;

#[derive(Clone, Debug, PartialEq, Eq, Serialize, Deserialize)]
pub enum AOp {
    Store(u32),
    Load(u8),
    Deref(u8),
    Drop(u8),
    /// load through a static and a dynamic chain at once and compare
    Agree,
}

#[derive(Clone, Debug, PartialEq, Eq, Serialize, Deserialize)]
pub struct ACase {
    pub ops: Vec<AOp>,
}

pub fn case_strategy() -> impl Strategy<Value = ACase> {
    let op = prop_oneof![
        4 => (1u32..1000).prop_map(AOp::Store),
        6 => (0u8..SHAPES).prop_map(AOp::Load),
        6 => any::<u8>().prop_map(AOp::Deref),
        3 => any::<u8>().prop_map(AOp::Drop),
        1 => Just(AOp::Agree),
    ];
    proptest::collection::vec(op, 1..50).prop_map(|ops| ACase { ops })
}

type G = Box<dyn Deref<Target = u32>>;

fn p_mid(c: &Cfg) -> &Mid {
    &c.mid
}
fn p_inner(m: &Mid) -> &Inner {
    &m.inner
}
fn p_x(i: &Inner) -> &u32 {
    &i.x
}
fn p_cfg_x(c: &Cfg) -> &u32 {
    &c.mid.inner.x
}

/// load a guard through projection chain number `shape`
fn load_shape(shape: u8, a: &Arc<ArcSwap<Cfg>>) -> G {
    match shape {
        // depth 1 over a reference
        0 => Box::new(Access::load(&Map::new(&**a, p_cfg_x as fn(&Cfg) -> &u32))),
        // depth 3, static, nested Maps over a reference
        1 => Box::new(Access::load(&Map::new(Map::new(Map::new(&**a, p_mid as fn(&Cfg) -> &Mid), p_inner as fn(&Mid) -> &Inner), p_x as fn(&Inner) -> &u32))),
        // through Arc of the container
        2 => Box::new(Access::load(&Map::new(Arc::clone(a), p_cfg_x as fn(&Cfg) -> &u32))),
        // Arc of a Map
        3 => Box::new(Access::load(&Map::new(Arc::new(Map::new(Arc::clone(a), p_mid as fn(&Cfg) -> &Mid)), |m: &Mid| &m.inner.x))),
        // dynamic dispatch: Box<dyn DynAccess<u32>>
        4 => {
            let d: Box<dyn DynAccess<u32>> = Box::new(Map::new(Arc::clone(a), p_cfg_x as fn(&Cfg) -> &u32));
            Box::new(DynAccess::load(&*d))
        }
        // AccessConvert over a boxed dyn of an intermediate, then a static Map on top (depth 3)
        5 => {
            let d: Box<dyn DynAccess<Inner>> = Box::new(Map::new(Map::new(Arc::clone(a), p_mid as fn(&Cfg) -> &Mid), p_inner as fn(&Mid) -> &Inner));
            Box::new(Access::load(&Map::new(AccessConvert(d), p_x as fn(&Inner) -> &u32)))
        }
        // the `map` method of the container
        6 => Box::new(Access::load(&a.map(|c: &Cfg| &c.mid.inner.x))),
        // depth 4: dyn -> convert -> map -> dyn
        7 => {
            let d: Box<dyn DynAccess<Mid>> = Box::new(Map::new(Arc::clone(a), p_mid as fn(&Cfg) -> &Mid));
            let m = Map::new(Map::new(AccessConvert(d), p_inner as fn(&Mid) -> &Inner), p_x as fn(&Inner) -> &u32);
            let d2: Box<dyn DynAccess<u32> + '_> = Box::new(m);
            Box::new(DynAccess::load(&*d2))
        }
        // a projection that hands out the pointer stored inline in the guard itself
        9 => {
            struct ViaArc<Gd: Deref<Target = Arc<Cfg>>>(Gd);
            impl<Gd: Deref<Target = Arc<Cfg>>> Deref for ViaArc<Gd> {
                type Target = u32;
                fn deref(&self) -> &u32 {
                    &self.0.mid.inner.x
                }
            }
            fn ident(p: &Arc<Cfg>) -> &Arc<Cfg> {
                p
            }
            let m = Map::new(Arc::clone(a), ident as fn(&Arc<Cfg>) -> &Arc<Cfg>);
            Box::new(ViaArc(Access::<Arc<Cfg>>::load(&m)))
        }
        // direct access through the container itself (Access<Cfg>), projected by hand
        _ => {
            struct Direct<Gd: Deref<Target = Cfg>>(Gd);
            impl<Gd: Deref<Target = Cfg>> Deref for Direct<Gd> {
                type Target = u32;
                fn deref(&self) -> &u32 {
                    &self.0.mid.inner.x
                }
            }
            let g = <ArcSwap<Cfg> as Access<Cfg>>::load(&**a);
            Box::new(Direct(g))
        }
    }
}

impl Clone for Inner {
    fn clone(&self) -> Self {
        Inner { x: self.x, tag: self.tag.clone() }
    }
}
impl Clone for Mid {
    fn clone(&self) -> Self {
        Mid { inner: self.inner.clone(), pad: self.pad }
    }
}
fn kc_clone(k: &Constant<Inner>) -> Constant<Inner> {
    Constant(k.0.clone())
}
#[inline(never)]
fn stack_noise(seed: u64) -> u64 {
    let mut a = [0u64; 64];
    for (i, x) in a.iter_mut().enumerate() {
        *x = seed.wrapping_mul(0x9E3779B97F4A7C15).wrapping_add(i as u64) | 2;
    }
    std::hint::black_box(&mut a);
    a.iter().fold(0u64, |s, x| s ^ x) | 2
}

#[derive(Default, Clone, Debug, Serialize, Deserialize)]
pub struct AStats {
    pub derefs_after_store: usize,
    pub guards: usize,
    pub derefs: usize,
    pub agree: usize,
    pub shapes_used: u32,
}

struct Held {
    g: G,
    x: u32,
    addr: usize,
    snap: Weak<Cfg>,
    stores_at_load: usize,
}

fn sel(i: u8, len: usize) -> usize {
    (i as usize * len) >> 8
}

pub fn run_case(c: &ACase) -> Result<AStats, String> {
    let mut st = AStats::default();
    let first = mk(0);
    let mut cur_x = 0u32;
    let mut cur_addr = &first.mid.inner.x as *const u32 as usize;
    let mut cur_weak = Arc::downgrade(&first);
    let a = Arc::new(ArcSwap::new(first));
    let mut old: Vec<Weak<Cfg>> = Vec::new();
    let mut held: Vec<Held> = Vec::new();
    let mut stores = 0usize;
    for (n, op) in c.ops.iter().enumerate() {
        match op {
            AOp::Store(x) => {
                let v = mk(*x);
                old.push(cur_weak.clone());
                cur_x = *x;
                cur_addr = &v.mid.inner.x as *const u32 as usize;
                cur_weak = Arc::downgrade(&v);
                a.store(v);
                stores += 1;
            }
            AOp::Load(s) => {
                if held.len() < 12 {
                    let g = load_shape(*s, &a);
                    st.guards += 1;
                    st.shapes_used |= 1 << *s;
                    let got = **g;
                    let addr = &**g as *const u32 as usize;
                    if got != cur_x || addr != cur_addr {
                        return Err(format!("op {}: a load through chain {} after a completed store projects x={} at {:#x}, the current value has x={} at {:#x}", n, s, got, addr, cur_x, cur_addr));
                    }
                    held.push(Held { g, x: got, addr, snap: cur_weak.clone(), stores_at_load: stores });
                }
            }
            AOp::Deref(i) => {
                if !held.is_empty() {
                    let h = &held[sel(*i, held.len())];
                    for _ in 0..2 {
                        let got = **h.g;
                        let addr = &**h.g as *const u32 as usize;
                        st.derefs += 1;
                        if got != h.x || addr != h.addr {
                            return Err(format!("op {}: a guard loaded with x={} at {:#x} now dereferences to x={} at {:#x}", n, h.x, h.addr, got, addr));
                        }
                    }
                    if h.snap.strong_count() == 0 {
                        return Err(format!("op {}: the snapshot of a live projection guard was released", n));
                    }
                    if stores > h.stores_at_load {
                        st.derefs_after_store += 1;
                    }
                }
            }
            AOp::Drop(i) => {
                if !held.is_empty() {
                    let k = sel(*i, held.len());
                    held.swap_remove(k);
                }
            }
            AOp::Agree => {
                let s1 = load_shape(1, &a);
                let s2 = load_shape(4, &a);
                let s3 = load_shape(7, &a);
                st.agree += 1;
                if **s1 != **s2 || **s2 != **s3 || (&**s1 as *const u32) != (&**s2 as *const u32) || (&**s2 as *const u32) != (&**s3 as *const u32) {
                    return Err(format!("op {}: static and dynamic dispatch disagree: {} {} {}", n, **s1, **s2, **s3));
                }
                let k = Constant(7u32);
                let kg = Access::load(&k);
                let kd: &dyn DynAccess<u32> = &k;
                if *kg != 7 || *DynAccess::load(kd) != 7 {
                    return Err("Constant does not yield its own value".into());
                }
                // projections over a Constant point into the guard object itself; the guard is
                // moved (boxed, pushed) and the stack is reused before it is dereferenced
                let kc = Constant(Inner { x: 7, tag: "k".into() });
                let g1: G = Box::new(Access::load(&Map::new(kc_clone(&kc), p_x as fn(&Inner) -> &u32)));
                let g2: G = Box::new(Access::load(&Map::new(Map::new(Constant(Mid { inner: Inner { x: 9, tag: "m".into() }, pad: [1; 3] }), p_inner as fn(&Mid) -> &Inner), p_x as fn(&Inner) -> &u32)));
                let d: Box<dyn DynAccess<u32>> = Box::new(Map::new(kc_clone(&kc), p_x as fn(&Inner) -> &u32));
                let g3 = DynAccess::load(&*d);
                let mut keep: Vec<G> = vec![g1, g2, Box::new(g3)];
                let noise = stack_noise(n as u64);
                keep.rotate_left(1);
                if **keep[2] != 7 || **keep[0] != 9 || **keep[1] != 7 || noise == 1 {
                    return Err(format!("op {}: projections over Constant yield {} {} {} instead of 7 9 7", n, **keep[2], **keep[0], **keep[1]));
                }
            }
        }
        // a superseded value without a guard on it must be gone; one with a guard must be alive
        for w in &old {
            let guarded = held.iter().any(|h| h.snap.ptr_eq(w));
            if !guarded && w.strong_count() != 0 {
                return Err(format!("op {}: a superseded value without any guard is still alive (strong={})", n, w.strong_count()));
            }
            if guarded && w.strong_count() == 0 {
                return Err(format!("op {}: a superseded value with a live guard was released", n));
            }
        }
    }
    Ok(st)
}

pub fn nontrivial(s: &AStats) -> bool {
    s.derefs_after_store > 0
}
