//! The instrumented pointer used by E1 (`VArc`): an `Arc`-like pointer whose count is an atomic of
//! the runtime (same protocol as `std::sync::Arc`), whose objects are never freed during an
//! execution, and whose every count access / dereference / destruction is checked.
#![allow(dead_code)]
use crate::rt::{self, cell_new, cell_read, cell_write, report, with_state, with_state_setup, Role};
use arc_swap::verif::{Op, Ordering};
use arc_swap::RefCnt;
use std::panic::Location;
use std::sync::atomic::{AtomicBool, AtomicU32, AtomicU64, AtomicUsize as RealUsize};
use std::sync::Mutex;

pub struct Obj {
    strong: RealUsize,
    id: AtomicU64,
    live: AtomicBool,
    destroyed: AtomicU32,
    cell: RealUsize,
    /// bitmask of containers this value was ever stored into (provenance)
    pub prov: AtomicU32,
    /// numeric payload for rcu "bump" closures
    pub num: AtomicU64,
    panic_on_drop: AtomicBool,
    creator: RealUsize,
    /// simulated pointee type (containers of different `ty` stand for `ArcSwapAny<Arc<X>>` and
    /// `ArcSwapAny<Arc<Y>>`; the program generator never mixes them, so the crate is never *told*
    /// to count an X as a Y)
    ty: AtomicU32,
}

pub const F9B_MARK: &str = "[F9b: a reference of a value of one pointee type was released (T::dec) by an operation on a container of another pointee type]";

thread_local! {
    /// pointee type of the container the current crate operation works on (0xFF: not checked)
    static CUR_TY: std::cell::Cell<u8> = const { std::cell::Cell::new(0xFF) };
    static TY_STACK: std::cell::RefCell<Vec<u8>> = const { std::cell::RefCell::new(Vec::new()) };
}
static CTAGS: Mutex<Vec<(usize, u8)>> = Mutex::new(Vec::new());

pub fn ctag_register(addr: usize, tag: u8) {
    CTAGS.lock().unwrap().push((addr, tag));
}
pub fn ctag_clear() {
    CTAGS.lock().unwrap().clear();
}
/// entering a crate operation on the container at `addr` (0 / unknown: unchecked)
pub fn ty_enter_addr(addr: usize) {
    let tag = if addr == 0 { 0xFF } else { CTAGS.lock().unwrap().iter().find(|(a, _)| *a == addr).map(|(_, t)| *t).unwrap_or(0xFF) };
    TY_STACK.with(|s| s.borrow_mut().push(CUR_TY.with(|c| c.replace(tag))));
}
pub fn ty_leave() {
    let prev = TY_STACK.with(|s| s.borrow_mut().pop()).unwrap_or(0xFF);
    CUR_TY.with(|c| c.set(prev));
}
pub fn ty_reset() {
    TY_STACK.with(|s| s.borrow_mut().clear());
    CUR_TY.with(|c| c.set(0xFF));
}
fn cur_ty() -> u8 {
    CUR_TY.with(|c| c.get())
}

/// percentage of values (chosen by identity) whose destructor panics (fault injection, C18)
pub static PANICKY_PCT: RealUsize = RealUsize::new(0);
pub static PANICKY_MADE: RealUsize = RealUsize::new(0);

/// classification counters (reset per execution)
pub static CROSS_READ: RealUsize = RealUsize::new(0);
pub static CROSS_DESTROY: RealUsize = RealUsize::new(0);

fn me_thread() -> usize {
    let t = rt::VT.with(|v| v.get());
    if t == rt::NONE_T {
        0
    } else {
        t
    }
}

pub struct VArc(*const Obj);
unsafe impl Send for VArc {}
unsafe impl Sync for VArc {}

pub struct Arena {
    objs: Vec<usize>,
    free: Vec<usize>,
    reuse: bool,
    next_id: u64,
    aux: u64,
    pub reused: usize,
    pub created: usize,
}

static ARENA: Mutex<Arena> = Mutex::new(Arena { objs: Vec::new(), free: Vec::new(), reuse: false, next_id: 1, aux: 1, reused: 0, created: 0 });

pub fn arena_reset(reuse: bool, seed: u64) {
    let mut a = ARENA.lock().unwrap();
    assert!(a.objs.is_empty());
    a.free.clear();
    a.reuse = reuse;
    a.next_id = 1;
    a.aux = seed | 1;
    a.reused = 0;
    a.created = 0;
    CROSS_READ.store(0, Ordering::Relaxed);
    CROSS_DESTROY.store(0, Ordering::Relaxed);
    PANICKY_MADE.store(0, Ordering::Relaxed);
}

/// (id, live, destroyed count, strong) of every incarnation that is still addressable.
pub fn arena_snapshot() -> Vec<ObjInfo> {
    let a = ARENA.lock().unwrap();
    a.objs
        .iter()
        .map(|&p| {
            let o = unsafe { &*(p as *const Obj) };
            ObjInfo { addr: p, id: o.id.load(Ordering::Relaxed), live: o.live.load(Ordering::Relaxed), destroyed: o.destroyed.load(Ordering::Relaxed), strong: o.strong.load(Ordering::Relaxed) }
        })
        .collect()
}

#[derive(Clone, Debug)]
pub struct ObjInfo {
    pub addr: usize,
    pub id: u64,
    pub live: bool,
    pub destroyed: u32,
    pub strong: usize,
}

pub fn arena_stats() -> (usize, usize) {
    let a = ARENA.lock().unwrap();
    (a.created, a.reused)
}

/// Free everything (after the execution, when nothing refers to the objects any more).
pub fn arena_free_all() {
    let mut a = ARENA.lock().unwrap();
    for p in a.objs.drain(..) {
        unsafe { drop(Box::from_raw(p as *mut Obj)) };
    }
    a.free.clear();
}

fn aux_rnd(a: &mut Arena) -> u64 {
    a.aux = a.aux.wrapping_add(0x9E3779B97F4A7C15);
    let mut z = a.aux;
    z = (z ^ (z >> 30)).wrapping_mul(0xBF58476D1CE4E5B9);
    z = (z ^ (z >> 27)).wrapping_mul(0x94D049BB133111EB);
    z ^ (z >> 31)
}

impl VArc {
    #[track_caller]
    pub fn new() -> VArc {
        Self::new_num(0)
    }

    #[track_caller]
    pub fn new_num(num: u64) -> VArc {
        // a value made inside an operation (rcu closure, write loop ...) is of that container's type
        let t = cur_ty();
        Self::new_full(num, if t == 0xFF { 0 } else { t })
    }

    #[track_caller]
    pub fn new_t(ty: u8) -> VArc {
        Self::new_full(0, ty)
    }

    #[track_caller]
    pub fn new_full(num: u64, ty: u8) -> VArc {
        let (id, popped) = {
            let mut a = ARENA.lock().unwrap();
            let id = a.next_id;
            a.next_id += 1;
            a.created += 1;
            let popped = if a.reuse && !a.free.is_empty() && aux_rnd(&mut a) & 1 == 0 {
                a.reused += 1;
                a.free.pop()
            } else {
                None
            };
            (id, popped)
        };
        let p = match popped {
            Some(p) => {
                // address reuse (ABA): re-issue a destroyed object as a brand-new incarnation
                let o = unsafe { &*(p as *const Obj) };
                o.strong.store(1, Ordering::Relaxed);
                o.id.store(id, Ordering::Relaxed);
                o.destroyed.store(0, Ordering::Relaxed);
                o.prov.store(0, Ordering::Relaxed);
                o.num.store(num, Ordering::Relaxed);
                o.panic_on_drop.store(false, Ordering::Relaxed);
                o.creator.store(me_thread(), Ordering::Relaxed);
                o.ty.store(ty as u32, Ordering::Relaxed);
                o.live.store(true, Ordering::Relaxed);
                p
            }
            None => {
                let o = Box::new(Obj {
                    strong: RealUsize::new(1),
                    id: AtomicU64::new(id),
                    live: AtomicBool::new(true),
                    destroyed: AtomicU32::new(0),
                    cell: RealUsize::new(usize::MAX),
                    prov: AtomicU32::new(0),
                    num: AtomicU64::new(num),
                    panic_on_drop: AtomicBool::new(false),
                    creator: RealUsize::new(me_thread()),
                    ty: AtomicU32::new(ty as u32),
                });
                let p = Box::into_raw(o) as usize;
                ARENA.lock().unwrap().objs.push(p);
                p
            }
        };
        let o = unsafe { &*(p as *const Obj) };
        let addr = &o.strong as *const _ as usize;
        // a fresh allocation: the count's history restarts, the payload is written by the creator
        let c = with_state_setup(|st, me| {
            st.register(addr, 1, Role::Strong, 0);
            cell_new(st, me)
        });
        o.cell.store(c.unwrap_or(usize::MAX), Ordering::Relaxed);
        let pct = PANICKY_PCT.load(Ordering::Relaxed);
        if pct > 0 && me_thread() != 0 && ((id.wrapping_mul(2654435761) >> 7) % 100) < pct as u64 {
            o.panic_on_drop.store(true, Ordering::Relaxed);
            PANICKY_MADE.fetch_add(1, Ordering::Relaxed);
        }
        VArc(p as *const Obj)
    }

    pub fn obj(&self) -> &Obj {
        unsafe { &*self.0 }
    }
    pub fn id(&self) -> u64 {
        self.obj().id.load(Ordering::Relaxed)
    }
    pub fn addr(&self) -> usize {
        self.0 as usize
    }
    pub fn num(&self) -> u64 {
        self.obj().num.load(Ordering::Relaxed)
    }
    pub fn ty(&self) -> u8 {
        self.obj().ty.load(Ordering::Relaxed) as u8
    }
    /// inside a crate operation on a container of another pointee type?
    fn check_ty(&self, what: &str) {
        let t = cur_ty();
        if t != 0xFF && self.is_live() && self.ty() != t {
            // finding F9b gives a reference back (a decrement) with the wrong type; an increment of
            // a value of another type would be something else
            let mark = if what == "decremented" { F9B_MARK } else { "" };
            report("O-type", "C12", format!("the reference count of value id={} (pointee type {}) was {} inside an operation on a container of pointee type {} {}", self.id(), self.ty(), what, t, mark));
        }
    }
    pub fn is_live(&self) -> bool {
        self.obj().live.load(Ordering::Relaxed)
    }
    pub fn set_panic_on_drop(&self) {
        self.obj().panic_on_drop.store(true, Ordering::Relaxed);
    }
    pub fn mark_stored(&self, cont: usize) {
        self.obj().prov.fetch_or(1 << cont, Ordering::Relaxed);
    }
    pub fn stored_in(&self, cont: usize) -> bool {
        self.obj().prov.load(Ordering::Relaxed) & (1 << cont) != 0
    }

    /// Dereference: use-after-free check + race-checked read of the payload. Returns the identity.
    pub fn read(&self, what: &str) -> u64 {
        let o = self.obj();
        let id = o.id.load(Ordering::Relaxed);
        if !o.live.load(Ordering::Relaxed) {
            report("O-uaf", "C01", format!("dereference of a destroyed value id={} ({})", id, what));
            return id;
        }
        let cr = o.creator.load(Ordering::Relaxed);
        if cr != me_thread() && cr != 0 {
            // (values made by the setup thread are published by thread creation, not by the crate)
            CROSS_READ.fetch_add(1, Ordering::Relaxed);
        }
        let c = o.cell.load(Ordering::Relaxed);
        if c != usize::MAX {
            let r = with_state(|st, me| if c < st.race_cells.len() { cell_read(st, me, c) } else { Ok(()) });
            if let Some(Err(e)) = r {
                report("O-race", "C07", format!("data race on the pointee of value id={} ({}): {}", id, what, e));
            }
        }
        id
    }

    #[track_caller]
    fn strong_op(&self, op: Op, o: Ordering) -> usize {
        let ob = self.obj();
        let addr = &ob.strong as *const _ as usize;
        let cur = ob.strong.load(Ordering::Relaxed);
        match rt::h_access(addr, cur, op, 1, 0, o, o, Location::caller()) {
            Some((old, _, new)) => {
                ob.strong.store(new, Ordering::Relaxed);
                old
            }
            None => match op {
                Op::FetchAdd => ob.strong.fetch_add(1, o),
                _ => ob.strong.fetch_sub(1, o),
            },
        }
    }

    pub fn strong_count(&self) -> usize {
        self.obj().strong.load(Ordering::Relaxed)
    }
}

impl Clone for VArc {
    #[track_caller]
    fn clone(&self) -> VArc {
        if !self.is_live() {
            report("O-uaf", "C01", format!("reference count incremented on a destroyed value id={}", self.id()));
        }
        self.check_ty("incremented");
        self.strong_op(Op::FetchAdd, Ordering::Relaxed);
        VArc(self.0)
    }
}

impl Drop for VArc {
    #[track_caller]
    fn drop(&mut self) {
        let o = self.obj();
        let id = o.id.load(Ordering::Relaxed);
        if !o.live.load(Ordering::Relaxed) {
            report("O-uaf", "C01", format!("reference count decremented on a destroyed value id={}", id));
            return;
        }
        self.check_ty("decremented");
        let old = self.strong_op(Op::FetchSub, Ordering::Release);
        if old == 1 {
            rt::h_fence_acq();
            // destructor
            let cr = o.creator.load(Ordering::Relaxed);
            if cr != me_thread() && cr != 0 {
                CROSS_DESTROY.fetch_add(1, Ordering::Relaxed);
            }
            let d = o.destroyed.fetch_add(1, Ordering::Relaxed);
            if d != 0 {
                report("O-acct", "C02", format!("value id={} destroyed twice", id));
            }
            let c = o.cell.load(Ordering::Relaxed);
            if c != usize::MAX {
                let r = with_state(|st, me| if c < st.race_cells.len() { cell_write(st, me, c) } else { Ok(()) });
                if let Some(Err(e)) = r {
                    report("O-race", "C07", format!("destructor of value id={} races with an access through a handle: {}", id, e));
                }
            }
            o.live.store(false, Ordering::Relaxed);
            {
                let mut a = ARENA.lock().unwrap();
                if a.reuse {
                    a.free.push(self.0 as usize);
                }
            }
            if o.panic_on_drop.swap(false, Ordering::Relaxed) && !std::thread::panicking() {
                panic!("{}", crate::exec::INJECTED);
            }
        } else if old == 0 || old > (usize::MAX >> 1) {
            report("O-acct", "C02", format!("reference count underflow on value id={}", id));
        }
    }
}

unsafe impl RefCnt for VArc {
    type Base = Obj;
    fn into_ptr(me: VArc) -> *mut Obj {
        let p = me.0 as *mut Obj;
        std::mem::forget(me);
        p
    }
    fn as_ptr(me: &VArc) -> *mut Obj {
        me.0 as *mut Obj
    }
    unsafe fn from_ptr(p: *const Obj) -> VArc {
        VArc(p)
    }
}
