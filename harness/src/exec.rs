//! E1 interpreter: runs one generated case (program + schedule spec) against the real crate on
//! virtual threads, records the history, and evaluates the oracles (DESIGN.md §4.5).
#![allow(dead_code, deprecated)]
use crate::lin::{self, HEv, LinResult, HK};
use crate::prog::*;
use crate::rt::{self, report, with_state, Failure, Mode, OpKind, Role, Stats, View};
use crate::varc::{self, VArc};
use arc_swap::access::{Access, Map, MapGuard};
use arc_swap::cache::Cache;
use arc_swap::strategy::test_strategies::FillFastSlots;
use arc_swap::strategy::{CaS, DefaultStrategy, Strategy};
use arc_swap::verif;
use arc_swap::{ArcSwapAny, Guard, RefCnt};
use serde::{Deserialize, Serialize};
use std::cell::{Cell, RefCell};
use std::collections::HashMap;
use std::panic::{catch_unwind, AssertUnwindSafe};
use std::sync::atomic::{AtomicBool, AtomicUsize, Ordering};
use std::sync::{Arc, Mutex};

pub const INJECTED: &str = "vcheck-injected-panic";

pub type V = Option<VArc>;
type Cont<S> = ArcSwapAny<V, S>;
type ProjFn = fn(&V) -> &V;
fn proj_id(v: &V) -> &V {
    v
}

/// What the harness needs from a strategy (sealed traits prevent a generic formulation of the
/// guard forms of `compare_and_swap`, which exist for the default strategy only).
pub trait Strat: Strategy<V> + CaS<V> + Default + Send + Sync + 'static {
    const NAME: &'static str;
    fn cas_guard(c: &Cont<Self>, cur: Guard<V, Self>, new: V) -> Guard<V, Self>;
    fn cas_guard_ref(c: &Cont<Self>, cur: &Guard<V, Self>, new: V) -> Guard<V, Self>;
}
impl Strat for DefaultStrategy {
    const NAME: &'static str = "default";
    fn cas_guard(c: &Cont<Self>, cur: Guard<V, Self>, new: V) -> Guard<V, Self> {
        c.compare_and_swap(cur, new)
    }
    fn cas_guard_ref(c: &Cont<Self>, cur: &Guard<V, Self>, new: V) -> Guard<V, Self> {
        c.compare_and_swap(cur, new)
    }
}
impl Strat for FillFastSlots {
    const NAME: &'static str = "fallback-only";
    // `AsRaw` is implemented for guards of the default strategy only; here the guard is passed as
    // a reference to what it denotes and released afterwards. The release happens while the
    // result is an ordinary local: if the destructor of the guard's value panics, the result is
    // dropped by the unwinding (as a by-value parameter dropped after the return value was moved
    // out it would be forgotten - by the harness, not by the crate).
    fn cas_guard(c: &Cont<Self>, cur: Guard<V, Self>, new: V) -> Guard<V, Self> {
        let r = c.compare_and_swap(&*cur, new);
        drop(cur);
        r
    }
    fn cas_guard_ref(c: &Cont<Self>, cur: &Guard<V, Self>, new: V) -> Guard<V, Self> {
        c.compare_and_swap(&**cur, new)
    }
}

struct FS<T>(T);
unsafe impl<T> Send for FS<T> {}
unsafe impl<T> Sync for FS<T> {}

#[derive(Clone, Debug)]
struct GInfo {
    id: u64,
    addr: usize,
    cont: usize,
    creator: usize,
}

/// harness-side classification counters (merged with the runtime's role-based ones)
#[derive(Default, Clone, Debug, Serialize, Deserialize)]
pub struct HStats {
    pub loads: usize,
    pub loads_overlapped: usize,
    pub loads_fallback: usize,
    pub loads_helped: usize,
    pub loads_paid: usize,
    pub distinct_ids_loaded: usize,
    pub foreign_guard_drop: usize,
    pub foreign_guard_deref: usize,
    pub guards_outlive_container: usize,
    pub guards_outlive_thread: usize,
    pub max_guards_held: usize,
    pub rcu_calls: usize,
    pub rcu_retries: usize,
    pub rcu_discarded: usize,
    pub cas_success: usize,
    #[serde(default)]
    pub cas_held_guard: usize,
    pub cas_fail: usize,
    pub cas_forms: [usize; 4],
    pub restore_same: usize,
    pub aba_identity: usize,
    pub null_stored: usize,
    pub cross_thread_value: usize,
    pub cross_thread_destroy: usize,
    pub panics_injected: usize,
    pub panics_on_retry: usize,
    pub panics_with_guards: usize,
    pub panics_in_writer: usize,
    pub panics_in_load: usize,
    pub panics_in_harness: usize,
    pub panicky_values: usize,
    pub dtor_ops: usize,
    pub quiesce_checks: usize,
    pub lin_checked: usize,
    pub lin_skipped: usize,
    pub lin_events: usize,
    pub window_checks: usize,
    pub chain_checks: usize,
    pub cache_loads: usize,
    pub cache_changes: usize,
    pub cache_hb_ordered: usize,
    pub temp_conts: usize,
    pub shared_value_conts: usize,
    pub solo_window_ops: usize,
    pub late_threads: usize,
    pub wrap_loads: usize,
    pub map_guards: usize,
    pub write_loop_iters: usize,
}

struct Shared<S: Strat> {
    conts: Vec<std::mem::ManuallyDrop<Cont<S>>>,
    init_ids: Vec<u64>,
    mail_h: Vec<Mutex<Vec<(VArc, View)>>>,
    mail_g: Vec<Mutex<Vec<FS<(Guard<V, S>, GInfo, View)>>>>,
    hist: Mutex<Vec<HEv>>,
    /// per container: (mo index, thread, epoch, clock) of every write operation that has returned
    completed: Vec<Mutex<Vec<(usize, usize, u32, usize)>>>,
    /// inventory published by every thread at quiescence points: (handle ids, guard (id, addr))
    inv: Vec<Mutex<(Vec<u64>, Vec<(u64, usize)>)>>,
    stop: AtomicBool,
    /// identities that an operation may have leaked because an injected destructor panic unwound
    /// out of it (finding F5)
    f5: Mutex<Vec<u64>>,
    /// simulated pointee type per container
    ctags: Vec<u8>,
    hs: Mutex<HStats>,
    loaded_ids: Mutex<Vec<u64>>,
    discarded_ids: Mutex<Vec<u64>>,
    mode: Mode,
    nthreads: usize,
    has_quiesce: bool,
}

static QUIESCE_CTX: Mutex<Option<Box<dyn Fn(&mut rt::State) + Send>>> = Mutex::new(None);
fn quiesce_tramp(st: &mut rt::State) {
    if let Some(f) = QUIESCE_CTX.lock().unwrap().as_ref() {
        f(st);
    }
}

fn ident(v: &V, what: &str) -> u64 {
    match v {
        None => 0,
        Some(a) => a.read(what),
    }
}
fn vaddr(v: &V) -> usize {
    match v {
        None => 0,
        Some(a) => a.addr(),
    }
}
fn sel(i: u8, len: usize) -> usize {
    (i as usize * len) >> 8
}

fn is_injected(e: &Box<dyn std::any::Any + Send>) -> bool {
    e.downcast_ref::<String>().map(|s| s.contains(INJECTED)).unwrap_or(false) || e.downcast_ref::<&str>().map(|s| s.contains(INJECTED)).unwrap_or(false)
}
fn panic_msg(e: &Box<dyn std::any::Any + Send>) -> String {
    e.downcast_ref::<String>().cloned().or(e.downcast_ref::<&str>().map(|s| s.to_string())).unwrap_or("<non-string payload>".into())
}

thread_local! {
    static INJECTED_CAUGHT: Cell<bool> = const { Cell::new(false) };
}
fn take_injected() -> bool {
    INJECTED_CAUGHT.with(|c| c.replace(false))
}

/// Run a call into the crate; a panic that is not an injected one is an O-total violation.
fn guarded<R>(what: &str, f: impl FnOnce() -> R) -> Option<R> {
    match catch_unwind(AssertUnwindSafe(f)) {
        Ok(r) => Some(r),
        Err(e) => {
            if !is_injected(&e) {
                report("O-total", "C13", format!("{} panicked: {}", what, panic_msg(&e)));
            } else {
                INJECTED_CAUGHT.with(|c| c.set(true));
            }
            None
        }
    }
}

pub const F5_MARK: &str = "[F5: a pointee destructor panicked inside the crate operation that was holding this value as a raw pointer]";

struct Local<S: Strat> {
    tid: usize,
    guards: Vec<(Guard<V, S>, GInfo)>,
    mguards: Vec<(MapGuard<Guard<V, S>, ProjFn, V, V>, GInfo)>,
    handles: Vec<VArc>,
    caches: HashMap<usize, (Cache<&'static Cont<S>, V>, usize, u64)>,
    in_dtor: bool,
    /// the generation counter may be preset once per thread only: presetting it a second time
    /// would move it *backwards* and make generations repeat within the life of a node, which the
    /// crate never does (a false alarm of this harness, seed 4 of the silence runs)
    gen_preset: bool,
}

impl<S: Strat> Shared<S> {
    fn caddr(&self, c: usize) -> usize {
        &*self.conts[c] as *const Cont<S> as usize
    }

    fn ev_begin(&self, c: usize) -> usize {
        let (vc, clk) = rt::my_vc().unwrap_or(([0; rt::MAXT], 0));
        let me = rt::VT.with(|v| v.get());
        let mut h = self.hist.lock().unwrap();
        h.push(HEv { cont: c, thread: me, kind: None, inv_vc: vc, inv_step: clk, ret: None });
        h.len() - 1
    }
    fn ev_end(&self, idx: usize, k: HK) {
        if let Some((_, e, clk)) = rt::stamp() {
            let mut h = self.hist.lock().unwrap();
            h[idx].kind = Some(k);
            h[idx].ret = Some((e, clk));
        }
    }

    /// newest write to container c whose *completed operation* precedes this point
    /// (real time under interleaving semantics, happens-before under weak memory; always
    /// happens-before when `force_hb`)
    fn window_lo(&self, c: usize, force_hb: bool) -> usize {
        let list = self.completed[c].lock().unwrap();
        let rt_mode = self.mode == Mode::SC && !force_hb;
        with_state(|st, me| list.iter().filter(|&&(_, t, e, _)| rt_mode || e <= st.th[me].view.vc[t]).map(|&(i, _, _, _)| i).max().unwrap_or(0)).unwrap_or(0)
    }

    /// the calling thread's write operation on c returned: remember the mo index it produced
    fn wrote(&self, c: usize) -> Option<usize> {
        let a = self.caddr(c);
        let idx = with_state(|st, me| st.th[me].last_w.remove(&a)).flatten();
        if let Some(i) = idx {
            if let Some((t, e, clk)) = rt::stamp() {
                self.completed[c].lock().unwrap().push((i, t, e, clk));
            }
        }
        idx
    }
    fn clear_wrote(&self, c: usize) {
        let a = self.caddr(c);
        with_state(|st, me| st.th[me].last_w.remove(&a));
    }

    /// identity tags of mo positions lo..=latest of container c
    fn tags_from(&self, c: usize, lo: usize) -> Vec<u64> {
        let a = self.caddr(c);
        with_state(|st, _| {
            let l = *st.locs.get(&a)?;
            Some(st.loc[l].hist[lo.min(st.loc[l].hist.len() - 1)..].iter().map(|m| m.tag).collect::<Vec<_>>())
        })
        .flatten()
        .unwrap_or_default()
    }
    fn tag_at(&self, c: usize, idx: usize) -> Option<u64> {
        let a = self.caddr(c);
        with_state(|st, _| {
            let l = *st.locs.get(&a)?;
            st.loc[l].hist.get(idx).map(|m| m.tag)
        })
        .flatten()
    }

    /// An injected destructor panic unwound out of a write operation on c. Finding F5 (open): the
    /// only place left where that loses a reference is the debt walk after a *successful*
    /// exchange (`wait_for_readers` -> `pay_all` -> `help` drops the replacement it could not
    /// hand over): the value the exchange removed is then held as a raw pointer and leaks exactly
    /// one reference. An operation that did not write (idx = None) has no such window, and neither
    /// has any other value.
    fn dtor_panic_in_write(&self, c: usize, idx: Option<usize>, _lo: usize) {
        if let Some(i) = idx {
            if i > 0 {
                self.f5.lock().unwrap().extend(self.tag_at(c, i - 1));
            }
        }
        self.hs.lock().unwrap().panics_in_writer += 1;
    }
    /// ... out of a load on c: nothing may leak (the fallback's release of the unused candidate
    /// was the second F5 site; it is fixed and therefore not excused any more)
    fn dtor_panic_in_load(&self, _c: usize, _lo: usize) {
        self.hs.lock().unwrap().panics_in_load += 1;
    }

    fn hs<R>(&self, f: impl FnOnce(&mut HStats) -> R) -> R {
        f(&mut self.hs.lock().unwrap())
    }
}

fn set_tag(id: u64) {
    with_state(|st, me| st.th[me].pending_tag = id);
}

impl<S: Strat> Local<S> {
    fn new(tid: usize) -> Self {
        Local { tid, guards: Vec::new(), mguards: Vec::new(), handles: Vec::new(), caches: HashMap::new(), in_dtor: false, gen_preset: false }
    }

    fn recv(&mut self, sh: &Shared<S>) {
        let mh: Vec<_> = sh.mail_h[self.tid].lock().unwrap().drain(..).collect();
        for (h, v) in mh {
            rt::acquire_view(&v);
            self.handles.push(h);
        }
        let mg: Vec<_> = sh.mail_g[self.tid].lock().unwrap().drain(..).collect();
        for FS((g, info, v)) in mg {
            rt::acquire_view(&v);
            self.guards.push((g, info));
        }
    }

    fn publish(&self, sh: &Shared<S>) {
        let mut inv = sh.inv[self.tid].lock().unwrap();
        inv.0 = self.handles.iter().map(|h| h.id()).collect();
        for (_, _, id) in self.caches.values() {
            if *id != 0 {
                inv.0.push(*id);
            }
        }
        inv.1 = self.guards.iter().map(|(_, i)| (i.id, i.addr)).chain(self.mguards.iter().map(|(_, i)| (i.id, i.addr))).collect();
    }

    fn make_val(&mut self, sh: &Shared<S>, c: usize, v: &Val) -> V {
        let r = match v {
            Val::Null => {
                sh.hs(|h| h.null_stored += 1);
                None
            }
            Val::Handle(i) if self.handles.iter().any(|h| h.ty() == sh.ctags[c]) => {
                // only values of the container's own pointee type can be offered to it
                let same: Vec<usize> = (0..self.handles.len()).filter(|&k| self.handles[k].ty() == sh.ctags[c]).collect();
                let h = self.handles[same[sel(*i, same.len())]].clone();
                if h.stored_in(c) {
                    sh.hs(|s| s.restore_same += 1);
                } else if h.obj().prov.load(Ordering::Relaxed) != 0 {
                    sh.hs(|s| s.shared_value_conts += 1);
                }
                Some(h)
            }
            _ => Some(VArc::new_t(sh.ctags[c])),
        };
        if let Some(a) = &r {
            a.mark_stored(c);
        }
        set_tag(r.as_ref().map(|a| a.id()).unwrap_or(0));
        r
    }

    /// "a thread that has already used the crate" (C08): known to the harness itself - at least
    /// one crate operation completed on this thread and its thread-locals are not being destroyed
    /// (not read from the crate: a variant that gives its node up between operations must still
    /// be measured)
    fn warmed(&self) -> bool {
        !self.in_dtor && rt::crate_ops_done() > 0
    }

    fn check_loaded(&self, sh: &Shared<S>, c: usize, lo: usize, v: &V, id: u64, what: &str) {
        if let Some(a) = v {
            if !a.stored_in(c) {
                report("O-lin", "C12", format!("{} on container {} returned value id={} that was never stored in this container", what, c, id));
            }
        }
        // white-box window: the identity must be one of the values the pointer word held between
        // the newest completed write preceding the call and now
        let tags = sh.tags_from(c, lo);
        if !tags.is_empty() {
            sh.hs(|h| h.window_checks += 1);
            if !tags.contains(&id) {
                report("O-lin", "C03", format!("{} on container {} returned id={} but the container held only {:?} since the newest write that completed before the call (mo index {})", what, c, id, tags, lo));
            }
        }
        sh.loaded_ids.lock().unwrap().push(id);
    }

    fn do_load(&mut self, sh: &Shared<S>, c: usize) {
        let lo = sh.window_lo(c, false);
        let ev = sh.ev_begin(c);
        let w = self.warmed();
        rt::op_begin(OpKind::Load, sh.caddr(c), w);
        let g = guarded("load", || sh.conts[c].load());
        let info = rt::op_end();
        let Some(g) = g else {
            if take_injected() {
                sh.dtor_panic_in_load(c, lo);
            }
            return;
        };
        let id = ident(&g, "load");
        sh.ev_end(ev, HK::Load { got: id });
        self.check_loaded(sh, c, lo, &g, id, "load");
        sh.hs(|h| {
            h.loads += 1;
            h.loads_overlapped += info.overlapped as usize;
            h.loads_fallback += info.fallback as usize;
            h.loads_helped += info.helped as usize;
        });
        let gi = GInfo { id, addr: vaddr(&g), cont: c, creator: self.tid };
        self.guards.push((g, gi));
        let n = self.guards.len();
        sh.hs(|h| h.max_guards_held = h.max_guards_held.max(n));
    }

    fn do_load_full(&mut self, sh: &Shared<S>, c: usize) {
        let lo = sh.window_lo(c, false);
        let ev = sh.ev_begin(c);
        let w = self.warmed();
        rt::op_begin(OpKind::Load, sh.caddr(c), w);
        let v = guarded("load_full", || sh.conts[c].load_full());
        let info = rt::op_end();
        let Some(v) = v else {
            if take_injected() {
                sh.dtor_panic_in_load(c, lo);
            }
            return;
        };
        let id = ident(&v, "load_full");
        sh.ev_end(ev, HK::Load { got: id });
        self.check_loaded(sh, c, lo, &v, id, "load_full");
        sh.hs(|h| {
            h.loads += 1;
            h.loads_overlapped += info.overlapped as usize;
            h.loads_fallback += info.fallback as usize;
            h.loads_helped += info.helped as usize;
        });
        if let Some(a) = v {
            self.handles.push(a);
        }
    }

    fn check_guard(&self, sh: &Shared<S>, g: &V, info: &GInfo, what: &str) {
        let id = ident(g, what);
        if id != info.id || vaddr(g) != info.addr {
            report("O-guard", "C10", format!("a guard created for value id={} denotes id={} at {}", info.id, id, what));
        }
        if info.creator != self.tid {
            sh.hs(|h| h.foreign_guard_deref += 1);
        }
    }

    fn drop_guard(&mut self, sh: &Shared<S>, k: usize) {
        let (g, info) = self.guards.swap_remove(k);
        self.check_guard(sh, &g, &info, "guard before drop");
        if info.creator != self.tid {
            sh.hs(|h| h.foreign_guard_drop += 1);
        }
        rt::op_begin(OpKind::GuardDrop, 0, true);
        guarded("guard drop", move || drop(g));
        rt::op_end();
    }

    fn drop_handle(&mut self, h: VArc) {
        h.read("handle before drop");
        rt::op_begin(OpKind::Other, 0, true);
        guarded("handle drop", move || drop(h));
        rt::op_end();
    }

    fn store_like(&mut self, sh: &Shared<S>, c: usize, v: &Val, swap: bool) {
        let new = self.make_val(sh, c, v);
        let new_id = new.as_ref().map(|a| a.id()).unwrap_or(0);
        sh.clear_wrote(c);
        let lo = sh.window_lo(c, false);
        let ev = sh.ev_begin(c);
        rt::op_begin(OpKind::Write, sh.caddr(c), true);
        if swap {
            let old = guarded("swap", || sh.conts[c].swap(new));
            rt::op_end();
            let idx = sh.wrote(c);
            let Some(old) = old else {
                if take_injected() {
                    sh.dtor_panic_in_write(c, idx, lo);
                    if idx.is_some() {
                        sh.ev_end(ev, HK::Store { new: new_id });
                    }
                }
                return;
            };
            let old_id = ident(&old, "swap result");
            sh.ev_end(ev, HK::Swap { new: new_id, old: old_id });
            if let Some(i) = idx {
                sh.hs(|h| h.chain_checks += 1);
                if let (Some(p), Some(n)) = (sh.tag_at(c, i - 1), sh.tag_at(c, i)) {
                    if p != old_id || n != new_id {
                        report("O-chain", "C04", format!("swap on container {} wrote id={} on top of id={} but returned id={}", c, n, p, old_id));
                    }
                }
            }
            if let Some(a) = &old {
                if !a.stored_in(c) {
                    report("O-chain", "C12", format!("swap on container {} returned id={} that was never stored there", c, old_id));
                }
            }
            if let Some(a) = old {
                self.handles.push(a);
            }
        } else {
            let r = guarded("store", || sh.conts[c].store(new));
            rt::op_end();
            let idx = sh.wrote(c);
            // the exchange happened even if the release of the old value panicked (injected)
            if r.is_none() && take_injected() {
                sh.dtor_panic_in_write(c, idx, lo);
            }
            if idx.is_some() {
                sh.ev_end(ev, HK::Store { new: new_id });
            } else if r.is_some() && !sh.tags_from(c, lo).contains(&new_id) {
                // The call returned normally without writing the pointer word, and the container
                // did not hold that very value during the call either (storing what is already
                // stored may be elided): the store was lost.
                report("O-chain", "C04", format!("store of id={} on container {} returned without writing the pointer word", new_id, c));
            }
        }
    }

    fn do_cas(&mut self, sh: &Shared<S>, c: usize, cur: &Cur, form: Form, v: &Val) {
        // the value of `current`
        let mut loaded_guard: Option<Guard<V, S>> = None;
        let cur_v: V = match cur {
            Cur::Loaded => {
                self.do_load(sh, c);
                match self.guards.pop() {
                    // the owned-guard form gets the loaded guard itself: the harness keeps no
                    // other reference, so the guard may be the last owner of the value
                    Some((g, _)) if matches!(form, Form::Guard) => {
                        let probe = std::mem::ManuallyDrop::new(unsafe { <V as RefCnt>::from_ptr(<V as RefCnt>::as_ptr(&g)) });
                        let _ = &probe;
                        loaded_guard = Some(g);
                        None
                    }
                    Some((g, _)) => Guard::into_inner(g),
                    None => return,
                }
            }
            Cur::Held(i) if self.guards.iter().any(|(_, gi)| gi.cont == c) => {
                // a guard taken some time ago: by now it may be stale and the last owner
                let mine: Vec<usize> = (0..self.guards.len()).filter(|&k| self.guards[k].1.cont == c).collect();
                let (g, info) = self.guards.swap_remove(mine[sel(*i, mine.len())]);
                self.check_guard(sh, &g, &info, "held guard before compare_and_swap");
                sh.hs(|h| h.cas_held_guard += 1);
                if matches!(form, Form::Guard) {
                    loaded_guard = Some(g);
                    None
                } else {
                    Guard::into_inner(g)
                }
            }
            Cur::Handle(i) if self.handles.iter().any(|h| h.ty() == sh.ctags[c]) => {
                let same: Vec<usize> = (0..self.handles.len()).filter(|&k| self.handles[k].ty() == sh.ctags[c]).collect();
                Some(self.handles[same[sel(*i, same.len())]].clone())
            }
            _ => None,
        };
        if rt::aborted() {
            return;
        }
        let (cur_id, cur_addr) = match &loaded_guard {
            Some(g) => (ident(g, "cas current"), vaddr(g)),
            None => (ident(&cur_v, "cas current"), vaddr(&cur_v)),
        };
        let new = self.make_val(sh, c, v);
        let new_id = new.as_ref().map(|a| a.id()).unwrap_or(0);
        let new_fresh = matches!(v, Val::Fresh) || (matches!(v, Val::Handle(_)) && new.as_ref().map(|a| a.strong_count() == 1).unwrap_or(false));
        let new_ptr = new.as_ref().map(|a| a.addr());
        sh.clear_wrote(c);
        let lo = sh.window_lo(c, false);
        let ev = sh.ev_begin(c);
        rt::op_begin(OpKind::Write, sh.caddr(c), true);
        sh.hs(|h| h.cas_forms[form as usize] += 1);
        let cont = &*sh.conts[c];
        let prev = guarded("compare_and_swap", || match form {
            Form::Ref => cont.compare_and_swap(&cur_v, new),
            Form::Raw => cont.compare_and_swap(<V as RefCnt>::as_ptr(&cur_v) as *const varc::Obj, new),
            Form::Guard => match loaded_guard.take() {
                Some(g) => S::cas_guard(cont, g, new),
                None => S::cas_guard(cont, Guard::from_inner(cur_v.clone()), new),
            },
            Form::GuardRef => {
                let g = Guard::from_inner(cur_v.clone());
                S::cas_guard_ref(cont, &g, new)
            }
        });
        rt::op_end();
        let idx = sh.wrote(c);
        let Some(prev) = prev else {
            if take_injected() {
                sh.dtor_panic_in_write(c, idx, lo);
                if let Some(i) = idx {
                    if let Some(p) = sh.tag_at(c, i - 1) {
                        sh.ev_end(ev, HK::Cas { cur: p, new: new_id, prev: p });
                    }
                }
            }
            return;
        };
        let prev_id = ident(&prev, "cas result");
        let success = vaddr(&prev) == cur_addr;
        sh.ev_end(ev, HK::Cas { cur: cur_id, new: new_id, prev: prev_id });
        sh.hs(|h| if success { h.cas_success += 1 } else { h.cas_fail += 1 });
        if success != (prev_id == cur_id) {
            report("O-cas", "C05", format!("compare_and_swap result id={} has the address of current id={} but another identity", prev_id, cur_id));
        }
        // (exchanging a value for itself may be elided: then nothing is written although the
        // result is pointer-equal to current)
        if success != idx.is_some() && !(success && new_ptr.unwrap_or(0) == cur_addr) {
            report("O-cas", "C05", format!("compare_and_swap on container {}: returned id={} current id={} (pointer-equal: {}) but the pointer word was {}written by this call", c, prev_id, cur_id, success, if idx.is_some() { "" } else { "not " }));
        }
        if let Some(i) = idx {
            sh.hs(|h| h.chain_checks += 1);
            if let (Some(p), Some(n)) = (sh.tag_at(c, i - 1), sh.tag_at(c, i)) {
                if p != prev_id || n != new_id {
                    report("O-chain", "C04", format!("compare_and_swap on container {} wrote id={} on top of id={} but returned id={}", c, n, p, prev_id));
                }
            }
        } else if new_fresh {
            // the rejected `new` lost the one reference that was passed in: nobody else owned it
            if let Some(p) = new_ptr {
                let o = unsafe { &*(p as *const varc::Obj) };
                let _ = o;
                let still = varc::arena_snapshot().into_iter().find(|x| x.id == new_id);
                if let Some(x) = still {
                    if x.live {
                        report("O-cas", "C05", format!("failed compare_and_swap did not release the rejected new value id={} (strong={})", new_id, x.strong));
                    }
                }
            }
        }
        let gi = GInfo { id: prev_id, addr: vaddr(&prev), cont: c, creator: self.tid };
        self.guards.push((prev, gi));
        guarded("handle drop", move || drop(cur_v));
    }

    fn do_rcu(&mut self, sh: &Shared<S>, c: usize, nested: &Nested, panic_at: u8) {
        sh.clear_wrote(c);
        let lo = sh.window_lo(c, false);
        let ev = sh.ev_begin(c);
        let attempts: RefCell<Vec<(u64, u64, usize)>> = RefCell::new(Vec::new());
        let k = Cell::new(0u8);
        let guards_held = self.guards.len();
        rt::op_begin(OpKind::Write, sh.caddr(c), true);
        let tid = self.tid;
        let res = catch_unwind(AssertUnwindSafe(|| {
            sh.conts[c].rcu(|v: &V| {
                k.set(k.get() + 1);
                let arg = ident(v, "rcu closure argument");
                if panic_at != 0 && k.get() == panic_at {
                    sh.hs(|h| {
                        h.panics_injected += 1;
                        h.panics_on_retry += (k.get() > 1) as usize;
                        h.panics_with_guards += (guards_held > 0) as usize;
                    });
                    attempts.borrow_mut().push((arg, u64::MAX, 0));
                    panic!("{}", INJECTED);
                }
                if k.get() == 1 {
                    match nested {
                        Nested::None => {}
                        Nested::Load(c2) => {
                            let c2 = *c2 as usize;
                            let lo = sh.window_lo(c2, false);
                            let e2 = sh.ev_begin(c2);
                            let g = sh.conts[c2].load();
                            let id = ident(&g, "nested load");
                            sh.ev_end(e2, HK::Load { got: id });
                            let tags = sh.tags_from(c2, lo);
                            if !tags.is_empty() && !tags.contains(&id) {
                                report("O-lin", "C03", format!("nested load on container {} returned id={} outside its window {:?}", c2, id, tags));
                            }
                        }
                        Nested::Store(c2) => {
                            let c2 = *c2 as usize;
                            let n = VArc::new();
                            n.mark_stored(c2);
                            set_tag(n.id());
                            let nid = n.id();
                            sh.clear_wrote(c2);
                            let e2 = sh.ev_begin(c2);
                            sh.conts[c2].store(Some(n));
                            let _ = sh.wrote(c2);
                            sh.ev_end(e2, HK::Store { new: nid });
                        }
                        Nested::Rcu(c2) => {
                            let c2 = *c2 as usize;
                            sh.clear_wrote(c2);
                            let e2 = sh.ev_begin(c2);
                            let last = Cell::new((0u64, 0u64));
                            let old = sh.conts[c2].rcu(|v2: &V| {
                                let a2 = ident(v2, "nested rcu argument");
                                let n = VArc::new_num(v2.as_ref().map(|x| x.num()).unwrap_or(0) + 1);
                                n.mark_stored(c2);
                                set_tag(n.id());
                                last.set((a2, n.id()));
                                Some(n)
                            });
                            let _ = sh.wrote(c2);
                            let oid = ident(&old, "nested rcu result");
                            sh.ev_end(e2, HK::Cas { cur: oid, new: last.get().1, prev: oid });
                            if oid != last.get().0 {
                                report("O-rcu", "C06", format!("nested rcu returned id={} but its last attempt was computed from id={}", oid, last.get().0));
                            }
                        }
                    }
                }
                let n = VArc::new_num(v.as_ref().map(|x| x.num()).unwrap_or(0) + 1);
                n.mark_stored(c);
                set_tag(n.id());
                attempts.borrow_mut().push((arg, n.id(), n.addr()));
                let _ = tid;
                Some(n)
            })
        }));
        rt::op_end();
        let idx = sh.wrote(c);
        let att = attempts.into_inner();
        sh.hs(|h| {
            h.rcu_calls += 1;
            h.rcu_retries += att.len().saturating_sub(1);
        });
        // values passed to discarded attempts were loaded from the container during the call
        let n_att = att.len();
        match res {
            Ok(old) => {
                let old_id = ident(&old, "rcu result");
                let (last_arg, last_new, _) = att.last().copied().unwrap_or((u64::MAX, 0, 0));
                sh.ev_end(ev, HK::Cas { cur: old_id, new: last_new, prev: old_id });
                if old_id != last_arg {
                    report("O-rcu", "C06", format!("rcu on container {} returned id={} but the value it installed was computed from id={}", c, old_id, last_arg));
                }
                match idx {
                    Some(i) => {
                        if let (Some(p), Some(n)) = (sh.tag_at(c, i - 1), sh.tag_at(c, i)) {
                            sh.hs(|h| h.chain_checks += 1);
                            if p != old_id || n != last_new {
                                report("O-rcu", "C06", format!("rcu on container {} installed id={} on top of id={} but f was applied to id={} and produced id={}", c, n, p, last_arg, last_new));
                            }
                        }
                    }
                    None => {
                        if with_state(|_, _| ()).is_some() {
                            report("O-rcu", "C06", format!("rcu on container {} returned (id={}) without having installed anything", c, old_id));
                        }
                    }
                }
                for (j, (arg, res_id, addr)) in att.iter().enumerate() {
                    if j + 1 < n_att {
                        // a discarded attempt: its argument was loaded from the container some
                        // time during the call
                        {
                            let mut h = sh.hist.lock().unwrap();
                            let mut e = h[ev].clone();
                            e.kind = Some(HK::Load { got: *arg });
                            h.push(e);
                        }
                        sh.hs(|h| h.rcu_discarded += 1);
                        sh.discarded_ids.lock().unwrap().push(*res_id);
                        let o = unsafe { &*(*addr as *const varc::Obj) };
                        let v = std::mem::ManuallyDrop::new(unsafe { <VArc as RefCnt>::from_ptr(o as *const _) });
                        if v.id() == *res_id && v.is_live() && with_state(|_, _| ()).is_some() {
                            report("O-rcu", "C06", format!("the result id={} of a discarded rcu attempt is still alive after rcu returned", res_id));
                        }
                        let _ = arg;
                    }
                }
                if let Some(a) = old {
                    self.handles.push(a);
                }
            }
            Err(e) => {
                if !is_injected(&e) {
                    report("O-total", "C13", format!("rcu panicked: {}", panic_msg(&e)));
                } else if att.last().map(|a| a.1 == u64::MAX).unwrap_or(false) {
                    // the closure panicked: nothing may have changed
                    if idx.is_some() {
                        report("O-panic", "C18", format!("a panic in the rcu closure changed container {}", c));
                    }
                } else {
                    // a destructor panicked somewhere inside rcu
                    sh.dtor_panic_in_write(c, idx, lo);
                    if let Some(i) = idx {
                        if let (Some(p), Some(n)) = (sh.tag_at(c, i - 1), sh.tag_at(c, i)) {
                            sh.ev_end(ev, HK::Cas { cur: p, new: n, prev: p });
                        }
                    }
                    // the values passed to f were loaded (also by the attempt that installed)
                    let mut h = sh.hist.lock().unwrap();
                    for (arg, _, _) in att.iter() {
                        let mut e = h[ev].clone();
                        if e.ret.is_none() {
                            continue;
                        }
                        e.kind = Some(HK::Load { got: *arg });
                        h.push(e);
                    }
                }
            }
        }
    }

    fn do_temp(&mut self, sh: &Shared<S>, n: u8, consume: bool) {
        sh.hs(|h| h.temp_conts += 1);
        let v0 = VArc::new();
        let id0 = v0.id();
        let cont: Box<Cont<S>> = Box::new(ArcSwapAny::new(Some(v0)));
        let addr = &*cont as *const Cont<S> as usize;
        with_state(|st, _| st.register(addr, unsafe { *(addr as *const usize) }, Role::Storage, id0));
        let mut gs: Vec<(Guard<V, S>, u64)> = Vec::new();
        let mut cur_id = id0;
        rt::op_begin(OpKind::Other, addr, true);
        let r = guarded("temporary container", || {
            for i in 0..n {
                let g = cont.load();
                let id = ident(&g, "load of temporary container");
                if id != cur_id {
                    report("O-lin", "C03", format!("load of a thread-private container returned id={} instead of id={}", id, cur_id));
                }
                gs.push((g, id));
                if i == n / 2 {
                    let nv = VArc::new();
                    cur_id = nv.id();
                    set_tag(cur_id);
                    cont.store(Some(nv));
                }
            }
            if consume {
                let x = (*cont).into_inner();
                let id = ident(&x, "into_inner of temporary container");
                if id != cur_id {
                    report("O-chain", "C04", format!("into_inner returned id={} instead of id={}", id, cur_id));
                }
                drop(x);
            } else {
                drop(cont);
            }
        });
        rt::op_end();
        with_state(|st, _| st.forget(addr));
        if r.is_none() {
            return;
        }
        if !gs.is_empty() {
            sh.hs(|h| h.guards_outlive_container += 1);
        }
        for (g, id) in gs.drain(..) {
            let now = ident(&g, "guard after its container is gone");
            if now != id {
                report("O-guard", "C10", format!("guard for id={} denotes id={} after its container was destroyed", id, now));
            }
            rt::op_begin(OpKind::GuardDrop, 0, true);
            guarded("guard drop", move || drop(g));
            rt::op_end();
        }
    }

    fn do_cache_load(&mut self, sh: &Shared<S>, c: usize) {
        let lo_hb = sh.window_lo(c, true);
        if !self.caches.contains_key(&c) {
            let cont: &'static Cont<S> = unsafe { &*(&*sh.conts[c] as *const Cont<S>) };
            rt::op_begin(OpKind::Load, sh.caddr(c), false);
            let cache = guarded("Cache::new", || Cache::new(cont));
            rt::op_end();
            let Some(cache) = cache else { return };
            self.caches.insert(c, (cache, 0, u64::MAX));
        }
        let entry = self.caches.get_mut(&c).unwrap();
        rt::op_begin(OpKind::Load, sh.caddr(c), false);
        let r = catch_unwind(AssertUnwindSafe(|| {
            let v: &V = entry.0.load();
            (ident(v, "Cache::load"), v.as_ref().map(|a| a.stored_in(c)).unwrap_or(true))
        }));
        rt::op_end();
        let (id, prov_ok) = match r {
            Ok(x) => x,
            Err(e) => {
                if !is_injected(&e) {
                    report("O-total", "C13", format!("Cache::load panicked: {}", panic_msg(&e)));
                }
                return;
            }
        };
        if !prov_ok {
            report("O-fresh-hb", "C16", format!("Cache::load on container {} returned id={} that was never stored there", c, id));
        }
        // smallest mo position consistent with this result, not below the previous one nor below
        // the newest write whose completion happens-before the call
        let from = entry.1.max(lo_hb);
        let tags = sh.tags_from(c, from);
        sh.hs(|h| {
            h.cache_loads += 1;
            if lo_hb > 0 {
                h.cache_hb_ordered += 1;
            }
            if entry.2 != u64::MAX && entry.2 != id {
                h.cache_changes += 1;
            }
        });
        if !tags.is_empty() {
            match tags.iter().position(|&t| t == id) {
                Some(p) => entry.1 = from + p,
                None => {
                    report("O-fresh-hb", "C16", format!("Cache::load on container {} returned id={}; the container held only {:?} since mo index {} (previous result of this cache / newest write completed before the call)", c, id, tags, from));
                }
            }
        }
        entry.2 = id;
    }

    fn do_map_load(&mut self, sh: &Shared<S>, c: usize) {
        let lo = sh.window_lo(c, false);
        let cont: &'static Cont<S> = unsafe { &*(&*sh.conts[c] as *const Cont<S>) };
        let ev = sh.ev_begin(c);
        rt::op_begin(OpKind::Load, sh.caddr(c), self.warmed());
        let g = guarded("Map::load", || Map::new(cont, proj_id as ProjFn).load());
        rt::op_end();
        let Some(g) = g else { return };
        let id = ident(&g, "projected load");
        sh.ev_end(ev, HK::Load { got: id });
        self.check_loaded(sh, c, lo, &g, id, "projected load");
        sh.hs(|h| h.map_guards += 1);
        let gi = GInfo { id, addr: vaddr(&g), cont: c, creator: self.tid };
        self.mguards.push((g, gi));
    }

    fn step(&mut self, sh: &Shared<S>, op: &Op) {
        match op {
            Op::Load(c) => self.do_load(sh, *c as usize),
            Op::LoadFull(c) => self.do_load_full(sh, *c as usize),
            Op::Hold(c, n) => {
                for _ in 0..*n {
                    if rt::aborted() {
                        break;
                    }
                    self.do_load(sh, *c as usize);
                }
            }
            Op::GuardDeref(i) => {
                if !self.guards.is_empty() {
                    let k = sel(*i, self.guards.len());
                    let (g, info) = &self.guards[k];
                    self.check_guard(sh, g, info, "guard deref");
                }
                for (g, info) in &self.mguards {
                    self.check_guard(sh, g, info, "projected guard deref");
                }
            }
            Op::GuardDrop(i) => {
                if !self.guards.is_empty() {
                    let k = sel(*i, self.guards.len());
                    self.drop_guard(sh, k);
                } else if let Some((g, info)) = self.mguards.pop() {
                    self.check_guard(sh, &g, &info, "projected guard before drop");
                    rt::op_begin(OpKind::GuardDrop, 0, true);
                    guarded("projected guard drop", move || drop(g));
                    rt::op_end();
                }
            }
            Op::GuardIntoInner(i) => {
                if !self.guards.is_empty() {
                    let k = sel(*i, self.guards.len());
                    let (g, info) = self.guards.swap_remove(k);
                    rt::op_begin(OpKind::GuardDrop, 0, true);
                    let h = guarded("Guard::into_inner", move || Guard::into_inner(g));
                    rt::op_end();
                    if let Some(h) = h {
                        let id = ident(&h, "Guard::into_inner");
                        if id != info.id {
                            report("O-guard", "C10", format!("Guard::into_inner of a guard for id={} gave id={}", info.id, id));
                        }
                        if let Some(a) = h {
                            self.handles.push(a);
                        }
                    }
                }
            }
            Op::GuardFromInner(i) => {
                if !self.handles.is_empty() {
                    let k = sel(*i, self.handles.len());
                    let h = self.handles.swap_remove(k);
                    let gi = GInfo { id: h.id(), addr: h.addr(), cont: usize::MAX, creator: self.tid };
                    self.guards.push((Guard::from_inner(Some(h)), gi));
                }
            }
            Op::HandleDeref(i) => {
                if !self.handles.is_empty() {
                    self.handles[sel(*i, self.handles.len())].read("handle deref");
                }
            }
            Op::HandleDrop(i) => {
                if !self.handles.is_empty() {
                    let k = sel(*i, self.handles.len());
                    let h = self.handles.swap_remove(k);
                    self.drop_handle(h);
                }
            }
            Op::Store(c, v) => self.store_like(sh, *c as usize, v, false),
            Op::Swap(c, v) => self.store_like(sh, *c as usize, v, true),
            Op::Cas(c, cur, form, v) => self.do_cas(sh, *c as usize, cur, *form, v),
            Op::Rcu(c, nested, k) => self.do_rcu(sh, *c as usize, nested, *k),
            Op::SendHandle(i, to) => {
                let to = *to as usize;
                if !self.handles.is_empty() && to != self.tid && to < sh.nthreads {
                    let k = sel(*i, self.handles.len());
                    let h = self.handles.swap_remove(k);
                    match rt::release_view() {
                        Some(v) => sh.mail_h[to].lock().unwrap().push((h, v)),
                        None => self.handles.push(h),
                    }
                }
            }
            Op::SendGuard(i, to) => {
                let to = *to as usize;
                if !self.guards.is_empty() && to != self.tid && to < sh.nthreads {
                    let k = sel(*i, self.guards.len());
                    let (g, info) = self.guards.swap_remove(k);
                    match rt::release_view() {
                        Some(v) => sh.mail_g[to].lock().unwrap().push(FS((g, info, v))),
                        None => self.guards.push((g, info)),
                    }
                }
            }
            Op::TempCont(n, consume) => self.do_temp(sh, *n, *consume),
            Op::SetGen(j) => {
                // make sure the thread-local exists, then preset its generation counter
                if !self.in_dtor && !self.gen_preset {
                    self.gen_preset = true;
                    verif::set_generation(usize::MAX - 3 - 4 * (*j as usize));
                    sh.hs(|h| h.wrap_loads += 1);
                }
            }
            Op::Quiesce => {
                if !self.in_dtor {
                    self.publish(sh);
                    rt::quiesce();
                }
            }
            Op::CacheLoad(c) => {
                if !self.in_dtor {
                    self.do_cache_load(sh, *c as usize)
                }
            }
            Op::WriteLoop(c, n) => {
                for _ in 0..(*n as usize * 8) {
                    if sh.stop.load(Ordering::Relaxed) || rt::aborted() {
                        break;
                    }
                    sh.hs(|h| h.write_loop_iters += 1);
                    self.store_like(sh, *c as usize, &Val::Fresh, false);
                }
            }
            Op::StorePanicky(c) => {
                let c = *c as usize;
                let n = VArc::new_t(sh.ctags[c]);
                n.set_panic_on_drop();
                n.mark_stored(c);
                set_tag(n.id());
                let nid = n.id();
                sh.clear_wrote(c);
                let lo = sh.window_lo(c, false);
                let ev = sh.ev_begin(c);
                rt::op_begin(OpKind::Write, sh.caddr(c), true);
                let r = catch_unwind(AssertUnwindSafe(|| sh.conts[c].store(Some(n))));
                rt::op_end();
                let idx = sh.wrote(c);
                if idx.is_some() {
                    sh.ev_end(ev, HK::Store { new: nid });
                }
                if let Err(e) = r {
                    if is_injected(&e) {
                        sh.dtor_panic_in_write(c, idx, lo);
                    } else {
                        report("O-total", "C13", format!("store panicked: {}", panic_msg(&e)));
                    }
                }
            }
            Op::MapLoad(c) => {
                if !self.in_dtor {
                    self.do_map_load(sh, *c as usize)
                }
            }
            Op::Recycle(a, b) => {
                let (a, b) = (*a as usize, *b as usize);
                self.store_like(sh, a, &Val::Fresh, true);
                if let Some(h) = self.handles.pop() {
                    self.drop_handle(h);
                }
                if !rt::aborted() {
                    self.store_like(sh, b, &Val::Fresh, false);
                }
                if !rt::aborted() {
                    self.store_like(sh, b, &Val::Fresh, false);
                }
            }
            Op::Aba(c) => {
                // swap a fresh value in (the old one becomes our newest handle), swap it back
                sh.hs(|h| h.aba_identity += 1);
                self.store_like(sh, *c as usize, &Val::Fresh, true);
                if !rt::aborted() {
                    self.store_like(sh, *c as usize, &Val::Handle(255), true);
                }
            }
        }
    }

    /// drop everything the thread still holds
    fn release_all(&mut self, sh: &Shared<S>) {
        guarded("cache drop", || self.caches.clear());
        while !self.guards.is_empty() {
            let k = self.guards.len() - 1;
            self.drop_guard(sh, k);
        }
        while let Some((g, info)) = self.mguards.pop() {
            self.check_guard(sh, &g, &info, "projected guard at end");
            guarded("projected guard drop", move || drop(g));
        }
        while let Some(h) = self.handles.pop() {
            self.drop_handle(h);
        }
    }
}

fn thread_main<S: Strat>(tid: usize, prog: &Program, sh: &Arc<Shared<S>>) {
    let spec = &prog.threads[tid];
    let mut loc = Local::<S>::new(tid);
    for op in &spec.ops {
        if rt::aborted() {
            break;
        }
        loc.recv(sh);
        // an injected destructor panic may fire wherever the harness itself releases a value
        guarded("harness step", || loc.step(sh, op));
        if take_injected() {
            sh.hs(|h| h.panics_in_harness += 1);
        }
    }
    if tid == 0 {
        // the finalizer
        sh.stop.store(true, Ordering::Relaxed);
        guarded("cache drop", || loc.caches.clear());
        loc.publish(sh);
        rt::wait_others_done();
        loc.recv(sh);
        // leftover mail of the other threads
        for t in 1..sh.nthreads {
            let mh: Vec<_> = sh.mail_h[t].lock().unwrap().drain(..).collect();
            for (h, v) in mh {
                rt::acquire_view(&v);
                loc.handles.push(h);
            }
            let mg: Vec<_> = sh.mail_g[t].lock().unwrap().drain(..).collect();
            for FS((g, info, v)) in mg {
                rt::acquire_view(&v);
                loc.guards.push((g, info));
            }
        }
        let foreign = loc.guards.iter().filter(|(_, i)| i.creator != 0).count();
        sh.hs(|h| h.guards_outlive_thread += foreign);
        if !prog.outlive {
            loc.release_all(sh);
        } else {
            while let Some(h) = loc.handles.pop() {
                loc.drop_handle(h);
            }
            let n = loc.guards.len() + loc.mguards.len();
            sh.hs(|h| h.guards_outlive_container += n);
        }
        // destroy the containers (consume or drop)
        if !rt::aborted() {
            for c in 0..sh.conts.len() {
                let cont: Cont<S> = unsafe { std::ptr::read(&*sh.conts[c]) };
                let ev = sh.ev_begin(c);
                rt::op_begin(OpKind::Write, sh.caddr(c), true);
                let stored_id = sh.tags_from(c, 0).last().copied();
                if prog.consume[c] {
                    let v = guarded("into_inner", move || cont.into_inner());
                    rt::op_end();
                    if v.is_none() && take_injected() {
                        sh.f5.lock().unwrap().extend(stored_id);
                    }
                    if let Some(v) = v {
                        let id = ident(&v, "into_inner of the container");
                        sh.ev_end(ev, HK::Load { got: id });
                        if let Some(a) = v {
                            loc.drop_handle(a);
                        }
                    }
                } else {
                    let r = guarded("container drop", move || drop(cont));
                    rt::op_end();
                    if r.is_none() && take_injected() {
                        sh.f5.lock().unwrap().extend(stored_id);
                    }
                }
                if rt::aborted() {
                    break;
                }
            }
        }
        loc.release_all(sh);
        return;
    }
    // ordinary thread exit
    guarded("cache drop", || loc.caches.clear());
    if spec.bequeath && !rt::aborted() {
        if let Some(v) = rt::release_view() {
            let mut gm = sh.mail_g[0].lock().unwrap();
            for (g, info) in loc.guards.drain(..) {
                gm.push(FS((g, info, v.clone())));
            }
        }
    }
    loc.release_all(sh);
    loc.publish(sh);
    if !spec.dtor_ops.is_empty() && !rt::aborted() {
        let ops = spec.dtor_ops.clone();
        let sh2 = sh.clone();
        rt::set_dtor_ops(Box::new(move || {
            let mut l = Local::<S>::new(tid);
            l.in_dtor = true;
            for op in &ops {
                if rt::aborted() {
                    break;
                }
                sh2.hs(|h| h.dtor_ops += 1);
                guarded("harness step", || l.step(&sh2, op));
                take_injected();
            }
            l.release_all(&sh2);
        }));
    }
}

#[derive(Clone, Debug, Serialize, Deserialize)]
pub struct Outcome {
    pub fail: Option<Failure>,
    pub budget: bool,
    pub stats: Stats,
    pub hs: HStats,
    pub decisions: Vec<u16>,
    pub nodes: usize,
    pub objects: usize,
    pub reused: usize,
    #[serde(skip)]
    pub trace: Vec<String>,
    pub hung: bool,
}

fn storage_word(addr: usize) -> usize {
    unsafe { *(addr as *const usize) }
}

/// full accounting at a quiescence point (runs under the state lock; every thread is parked at an
/// operation boundary)
fn quiesce_check<S: Strat>(sh: &Shared<S>, st: &mut rt::State) {
    let mut handles: HashMap<u64, usize> = HashMap::new();
    let mut guards: HashMap<u64, usize> = HashMap::new();
    let mut guard_addrs: Vec<usize> = Vec::new();
    for t in 0..sh.nthreads {
        let inv = sh.inv[t].lock().unwrap();
        for id in &inv.0 {
            *handles.entry(*id).or_insert(0) += 1;
        }
        for (id, a) in &inv.1 {
            *guards.entry(*id).or_insert(0) += 1;
            guard_addrs.push(*a);
        }
        for (h, _) in sh.mail_h[t].lock().unwrap().iter() {
            *handles.entry(h.id()).or_insert(0) += 1;
        }
        for FS((_, info, _)) in sh.mail_g[t].lock().unwrap().iter() {
            *guards.entry(info.id).or_insert(0) += 1;
            guard_addrs.push(info.addr);
        }
    }
    let mut stored: HashMap<usize, usize> = HashMap::new();
    for c in 0..sh.conts.len() {
        *stored.entry(storage_word(sh.caddr(c))).or_insert(0) += 1;
    }
    sh.hs(|h| h.quiesce_checks += 1);
    for o in varc::arena_snapshot() {
        let own = handles.get(&o.id).copied().unwrap_or(0) + stored.get(&o.addr).copied().unwrap_or(0);
        let g = guards.get(&o.id).copied().unwrap_or(0);
        if !o.live {
            // destroyed incarnation: may be superseded at the same address, so owners are by id
            let own_id = handles.get(&o.id).copied().unwrap_or(0);
            if own_id + g > 0 {
                st.fail("O-acct", "C02", format!("value id={} is destroyed but still has {} owner(s) and {} guard(s)", o.id, own_id, g));
                return;
            }
            continue;
        }
        let f5 = sh.f5.lock().unwrap().iter().filter(|&&x| x == o.id).count();
        if own + g == 0 {
            let mark = if f5 > 0 && o.strong <= f5 { F5_MARK } else { "" };
            st.fail("O-tight", "C02", format!("value id={} has no owner left at a quiescent point but was not destroyed (strong={}) {}", o.id, o.strong, mark));
            return;
        }
        if o.strong < own || o.strong > own + g {
            let mark = if f5 > 0 && o.strong > own + g && o.strong <= own + g + f5 { F5_MARK } else { "" };
            st.fail("O-acct", "C02", format!("value id={}: strong count {} but {} owner(s) and {} guard(s) at a quiescent point {}", o.id, o.strong, own, g, mark));
            return;
        }
    }
    // borrow slots
    rt::PASS.with(|p| p.set(true));
    let nodes = verif::nodes();
    rt::PASS.with(|p| p.set(false));
    let mut pool = guard_addrs.clone();
    for n in &nodes {
        for s in n.slot_addrs.iter().flatten().copied() {
            match pool.iter().position(|&a| a == s) {
                Some(p) => {
                    pool.swap_remove(p);
                }
                None => {
                    st.fail("O-slots", "C02", format!("borrow slot of node {:x} holds {:x} at a quiescent point but no live guard accounts for it", n.addr, s));
                    return;
                }
            }
        }
        if !n.idle {
            st.fail("O-slots", "C02", format!("node {:x} has control word {:x} at a quiescent point", n.addr, n.control));
            return;
        }
    }
}

pub fn run_case(case: &Case, trace: bool) -> Outcome {
    if case.prog.strat == 0 {
        run_case_s::<DefaultStrategy>(case, trace)
    } else {
        run_case_s::<FillFastSlots>(case, trace)
    }
}

pub struct Bounds {
    pub load_bound: usize,
    pub solo_bound: usize,
}
pub static BOUNDS: Mutex<Bounds> = Mutex::new(Bounds { load_bound: 0, solo_bound: 0 });

fn run_case_s<S: Strat>(case: &Case, trace: bool) -> Outcome {
    assert_eq!(std::mem::size_of::<Cont<S>>(), std::mem::size_of::<usize>());
    let p = &case.prog;
    unsafe { verif::reset_nodes() };
    varc::arena_reset(p.reuse, case.spec.seed ^ 0x5eed);
    varc::PANICKY_PCT.store(p.panicky as usize, Ordering::Relaxed);
    let nt = p.threads.len();
    {
        let mut st = rt::rt().m.lock().unwrap();
        st.reset(nt, &case.spec);
        st.trace_on = trace;
        let b = BOUNDS.lock().unwrap();
        st.load_bound = b.load_bound;
        st.step_limit_solo = b.solo_bound;
        for (t, th) in p.threads.iter().enumerate() {
            if let Some((d, hb)) = th.after {
                st.th[t + 1].dep = Some((d as usize + 1, hb));
                st.th[t + 1].st = rt::TS::BlockedDep;
            }
        }
    }
    // setup (thread 0 of the model): containers with their initial values
    let mut conts = Vec::new();
    let mut init_ids = Vec::new();
    for c in 0..p.ncont as usize {
        let v: V = if p.init_null[c] { None } else { Some(VArc::new_t(p.ctype.get(c).copied().unwrap_or(0))) };
        if let Some(a) = &v {
            a.mark_stored(c);
        }
        init_ids.push(v.as_ref().map(|a| a.id()).unwrap_or(0));
        conts.push(std::mem::ManuallyDrop::new(ArcSwapAny::<V, S>::new(v)));
    }
    let has_quiesce = p.threads.iter().any(|t| t.ops.iter().any(|o| matches!(o, Op::Quiesce)));
    let sh = Arc::new(Shared::<S> {
        conts,
        init_ids: init_ids.clone(),
        mail_h: (0..nt).map(|_| Mutex::new(Vec::new())).collect(),
        mail_g: (0..nt).map(|_| Mutex::new(Vec::new())).collect(),
        hist: Mutex::new(Vec::new()),
        completed: (0..p.ncont).map(|_| Mutex::new(Vec::new())).collect(),
        inv: (0..nt).map(|_| Mutex::new((Vec::new(), Vec::new()))).collect(),
        stop: AtomicBool::new(false),
        f5: Mutex::new(Vec::new()),
        ctags: (0..p.ncont as usize).map(|c| p.ctype.get(c).copied().unwrap_or(0)).collect(),
        hs: Mutex::new(HStats::default()),
        loaded_ids: Mutex::new(Vec::new()),
        discarded_ids: Mutex::new(Vec::new()),
        mode: case.spec.mode,
        nthreads: nt,
        has_quiesce,
    });
    {
        let mut st = rt::rt().m.lock().unwrap();
        varc::ctag_clear();
        for c in 0..p.ncont as usize {
            let a = sh.caddr(c);
            st.register(a, storage_word(a), Role::Storage, init_ids[c]);
            if !p.ctype.is_empty() {
                varc::ctag_register(a, sh.ctags[c]);
            }
        }
        let sh2 = sh.clone();
        *QUIESCE_CTX.lock().unwrap() = Some(Box::new(move |st| quiesce_check(&sh2, st)));
        st.quiesce_hook = Some(quiesce_tramp);
    }
    sh.hs(|h| h.late_threads = p.threads.iter().filter(|t| t.after.is_some()).count());
    let mut hs = Vec::new();
    for t in 0..nt {
        let sh = sh.clone();
        let prog = p.clone();
        hs.push(
            std::thread::Builder::new()
                .stack_size(1 << 20)
                .spawn(move || {
                    rt::vthread_enter(t + 1);
                    let r = catch_unwind(AssertUnwindSafe(|| thread_main::<S>(t, &prog, &sh)));
                    if let Err(e) = r {
                        if !is_injected(&e) {
                            report("O-total", "C13", format!("thread {} panicked: {}", t, panic_msg(&e)));
                        }
                    }
                    drop(sh);
                    rt::vthread_exiting();
                })
                .unwrap(),
        );
    }
    let ok = rt::run_to_completion(std::time::Duration::from_secs(20));
    if !ok {
        // watchdog: threads may be stuck; the process cannot continue reliably
        // (a failure recorded before the threads got stuck is kept: an operation that really
        // blocks is reported by the step oracle and then spins for ever in the abort phase)
        let st = rt::rt().m.lock().unwrap();
        return Outcome { fail: st.fail.clone(), budget: st.fail.is_none(), stats: st.stats.clone(), hs: HStats::default(), decisions: st.log.clone(), nodes: 0, objects: 0, reused: 0, trace: st.trace.clone(), hung: true };
    }
    for h in hs {
        let _ = h.join();
    }
    *QUIESCE_CTX.lock().unwrap() = None;
    let mut st = rt::rt().m.lock().unwrap();
    st.on = false;
    st.quiesce_hook = None;
    let mut fail = st.fail.clone();
    let budget = st.budget_hit;
    let completed = fail.is_none() && !budget;
    let mut hstats = sh.hs.lock().unwrap().clone();
    let nodes = verif::nodes();
    if completed {
        // O-acct at the end: everything destroyed exactly once
        for o in varc::arena_snapshot() {
            if o.live || o.destroyed != 1 || o.strong != 0 {
                let f5 = sh.f5.lock().unwrap().iter().filter(|&&x| x == o.id).count();
                let mark = if o.live && o.destroyed == 0 && o.strong >= 1 && o.strong <= f5 { F5_MARK } else { "" };
                fail = Some(Failure { oracle: "O-acct".into(), prop: "C02".into(), msg: format!("at the end (all handles, guards and containers released) value id={} is live={} destroyed={}x strong={} {}", o.id, o.live, o.destroyed, o.strong, mark) });
                break;
            }
        }
    }
    if completed && fail.is_none() {
        for n in &nodes {
            if n.slot_addrs.iter().any(|s| s.is_some()) || !n.idle {
                fail = Some(Failure { oracle: "O-slots".into(), prop: "C02".into(), msg: format!("at the end node {:x} has slots={:x?} control={:x}", n.addr, n.slots, n.control) });
            } else if n.in_use == verif::encodings().node_used || n.active_writers != 0 {
                fail = Some(Failure { oracle: "O-nodes".into(), prop: "C11".into(), msg: format!("at the end (all threads exited) node {:x} has in_use={} active_writers={}", n.addr, n.in_use, n.active_writers) });
            }
        }
    }
    if completed && fail.is_none() {
        // space bound (sound form, interleaving semantics only; see DESIGN.md C11)
        // "bounded by the peak number of threads alive at once rather than by the number of threads
        // ever created": a constant factor is allowed (a policy that lets a node rest one more
        // round after its cooldown needs two nodes for strictly sequential threads), growth with
        // the number of threads is not
        if case.spec.mode == Mode::SC && nodes.len() > 2 * st.stats.peak_alive.max(1) + 1 + st.stats.acq_overlapped {
            fail = Some(Failure { oracle: "O-nodes".into(), prop: "C11".into(), msg: format!("{} nodes were allocated although at most {} threads owned one at a time and only {} acquisitions overlapped a write, an exit or another acquisition", nodes.len(), st.stats.peak_alive, st.stats.acq_overlapped) });
        }
    }
    if completed && fail.is_none() {
        // O-lin per container
        let hist = sh.hist.lock().unwrap();
        let real_time = case.spec.mode == Mode::SC;
        for c in 0..p.ncont as usize {
            let evs: Vec<&HEv> = hist.iter().filter(|e| e.cont == c && e.kind.is_some() && e.ret.is_some()).collect();
            hstats.lin_events += evs.len();
            match lin::check(init_ids[c], &evs, real_time, 40, 300_000) {
                LinResult::Ok => hstats.lin_checked += 1,
                LinResult::Skipped => hstats.lin_skipped += 1,
                LinResult::Fail => {
                    let short: Vec<String> = evs.iter().map(|e| format!("t{}:{:?}@{}..{}", e.thread, e.kind.unwrap(), e.inv_step, e.ret.unwrap().1)).collect();
                    fail = Some(Failure { oracle: "O-lin".into(), prop: "C03".into(), msg: format!("history of container {} (initial id={}) has no linearization ({}): {}", c, init_ids[c], if real_time { "real-time order" } else { "happens-before order" }, short.join(" ")) });
                    break;
                }
            }
        }
        // discarded rcu results were never visible
        let loaded = sh.loaded_ids.lock().unwrap();
        for d in sh.discarded_ids.lock().unwrap().iter() {
            if loaded.contains(d) {
                fail = Some(Failure { oracle: "O-rcu".into(), prop: "C06".into(), msg: format!("the result id={} of a discarded rcu attempt was observed by a load", d) });
            }
        }
        let mut ids = loaded.clone();
        ids.sort();
        ids.dedup();
        hstats.distinct_ids_loaded = ids.len();
    }
    hstats.panicky_values = varc::PANICKY_MADE.load(Ordering::Relaxed);
    varc::PANICKY_PCT.store(0, Ordering::Relaxed);
    hstats.cross_thread_value = varc::CROSS_READ.load(Ordering::Relaxed);
    hstats.cross_thread_destroy = varc::CROSS_DESTROY.load(Ordering::Relaxed);
    let (objects, reused) = varc::arena_stats();
    let out = Outcome { fail, budget, stats: st.stats.clone(), hs: hstats, decisions: st.log.clone(), nodes: nodes.len(), objects, reused, trace: std::mem::take(&mut st.trace), hung: false };
    drop(st);
    drop(sh);
    varc::arena_free_all();
    out
}
