//! E2 / C12, C15 (also C01, C02): containers of *different pointer kinds* over the *same allocations*.
//!
//! One program owns a pool of allocations and 1-4 containers, each of one of the kinds
//! `ArcSwapAny<Strong>`, `ArcSwapAny<Option<Strong>>`, `ArcSwapAny<Weak>` (Strong/Weak = Arc/sync::Weak
//! or Rc/rc::Weak), under the default or the fallback-only strategy. An allocation may sit in several
//! containers of several kinds at once while guards of either kind are alive. The shadow model is a
//! plain variable per container plus, per allocation, the number of strong and of weak owners and of
//! live guards of either class; after every step
//!   strong count == strong owners + live strong guards that own a reference,
//!   weak   count == weak owners   + live weak guards that own a reference,
//!   (whether a guard borrows through a slot or owns is read off the slots themselves - the number
//!   of slots holding an address before and after a load - and so is the moment a borrowing guard
//!   becomes an owning one: its slot no longer holds its address after some write),
//!   occupied slots == borrowing guards, address by address,
//!   the value is destroyed iff it has no strong owner and no strong guard (exactly once),
//!   a guard / load / swap / compare_and_swap denotes the model's value, a Weak upgrades iff alive.
//!
//! Finding F9a (fixed in /repo by 277f98b): debts were matched by address alone and a Weak of an
//! allocation has the same raw address as its Arc, so a writer of a container of one class paid the
//! debt of a guard of the other class with the wrong kind of count. The interpreter knows when that
//! can happen (a write removes allocation `a` from a container of one class while a guard of the
//! other class borrows `a`; or an owning guard that still refers to a slot is released while a guard
//! of the other class borrows through that slot); a count or slot mismatch on `a` right after such
//! an event carries the F9A marker (kept as a diagnosis now that the finding is repaired - it
//! suppresses nothing), the guards concerned are forgotten (their debt is gone, releasing them would
//! take a count that was never added and free the value under its owners) and the case ends.
#![allow(dead_code)]
use arc_swap::strategy::test_strategies::FillFastSlots;
use arc_swap::strategy::{CaS, DefaultStrategy, Strategy as AsStrategy};
use arc_swap::verif;
use arc_swap::{ArcSwapAny, Guard, RefCnt};
use proptest::prelude::*;
use serde::{Deserialize, Serialize};
use std::cell::RefCell;
use std::collections::HashMap;

/// Optional mode (was used by E4 while finding F9a was open; off everywhere now): do not perform
/// the operations the model predicts to run into finding F9a (they are skipped and counted),
/// instead of performing them and forgetting the guards concerned.
pub static AVOID_F9A: std::sync::atomic::AtomicBool = std::sync::atomic::AtomicBool::new(false);

pub const F9A_MARK: &str = "[F9a: the borrow slot of a guard of one pointer class (strong/weak) was paid with a count of the other class]";

#[derive(Clone, Copy, Debug, PartialEq, Eq, Serialize, Deserialize)]
pub enum MKind {
    Strong,
    OptStrong,
    Weak,
    /// `ArcSwapAny<Option<Weak<T>>>` (empty = `None`; `Some(Weak::new())` is never stored, it is
    /// documented to read back as `None`)
    OptWeak,
}

#[derive(Clone, Copy, Debug, PartialEq, Eq, Serialize, Deserialize)]
pub enum MVal {
    /// allocation i of the pool (if its pool handle is gone: the empty value / allocation 0's successor)
    Pool(u8),
    Fresh,
    /// None / a dangling Weak (a plain strong container takes pool value 0 instead)
    Empty,
}

#[derive(Clone, Copy, Debug, PartialEq, Eq, Serialize, Deserialize)]
pub enum MOp {
    Load(u8),
    LoadFull(u8),
    Store(u8, MVal),
    Swap(u8, MVal),
    Cas(u8, MVal, MVal),
    DerefGuard(u8),
    DropGuard(u8),
    DropHandle(u8),
    /// give up the pool's own strong handle of allocation i
    DropPool(u8),
    /// many guards at once on container c (more than the fast slots)
    Hold(u8, u8),
    /// replace through `rcu` (an internal load, then a compare-and-swap): the previous value comes
    /// out as with a swap
    Rcu(u8, MVal),
    /// store a clone of handle i (something a swap or load_full gave out earlier - for a Weak
    /// possibly with its target already dropped) into container c, if the classes match
    StoreHandle(u8, u8),
}

#[derive(Clone, Debug, PartialEq, Eq, Serialize, Deserialize)]
pub struct MCase {
    pub rc_family: bool,
    pub fallback_only: bool,
    pub kinds: Vec<MKind>,
    pub init: Vec<MVal>,
    pub ops: Vec<MOp>,
    /// at the end the containers go first (dropped, or consumed with into_inner), while guards
    /// and handles are still alive
    #[serde(default)]
    pub cont_first: bool,
    #[serde(default)]
    pub consume: bool,
}

pub fn case_strategy() -> impl Strategy<Value = MCase> {
    let kind = prop_oneof![3 => Just(MKind::Strong), 2 => Just(MKind::OptStrong), 3 => Just(MKind::Weak), 2 => Just(MKind::OptWeak)];
    let val = || prop_oneof![6 => (0u8..3).prop_map(MVal::Pool), 2 => Just(MVal::Fresh), 1 => Just(MVal::Empty)];
    let op = prop_oneof![
        5 => (0u8..4).prop_map(MOp::Load),
        2 => (0u8..4).prop_map(MOp::LoadFull),
        4 => ((0u8..4), val()).prop_map(|(c, v)| MOp::Store(c, v)),
        2 => ((0u8..4), val()).prop_map(|(c, v)| MOp::Swap(c, v)),
        2 => ((0u8..4), val(), val()).prop_map(|(c, a, b)| MOp::Cas(c, a, b)),
        3 => any::<u8>().prop_map(MOp::DerefGuard),
        3 => any::<u8>().prop_map(MOp::DropGuard),
        2 => any::<u8>().prop_map(MOp::DropHandle),
        1 => (0u8..3).prop_map(MOp::DropPool),
        1 => ((0u8..4), 2u8..12).prop_map(|(c, n)| MOp::Hold(c, n)),
        2 => ((0u8..4), any::<u8>()).prop_map(|(c, i)| MOp::StoreHandle(c, i)),
        2 => ((0u8..4), val()).prop_map(|(c, v)| MOp::Rcu(c, v)),
    ];
    (any::<bool>(), any::<bool>(), proptest::collection::vec(kind, 1..5), proptest::collection::vec(val(), 4), proptest::collection::vec(op, 1..40), any::<bool>(), any::<bool>())
        .prop_map(|(rc_family, fallback_only, kinds, init, ops, cont_first, consume)| MCase { rc_family, fallback_only, kinds, init, ops, cont_first, consume })
}

// ---------------------------------------------------------------------------------------------

thread_local! {
    static DESTROYED: RefCell<HashMap<u32, u32>> = RefCell::new(HashMap::new());
}

pub struct Tr {
    id: u32,
    payload: u64,
    /// makes the reference-counted allocation (two counters + Tr) exactly
    /// `alloc_count::TRACKED_SIZE` bytes, a size nothing else in the harness allocates
    _pad: [u64; 121],
}
const _: () = assert!(std::mem::size_of::<Tr>() + 2 * std::mem::size_of::<usize>() == crate::alloc_count::TRACKED_SIZE);
impl Drop for Tr {
    fn drop(&mut self) {
        DESTROYED.with(|d| *d.borrow_mut().entry(self.id).or_insert(0) += 1);
    }
}
fn destroyed(id: u32) -> u32 {
    DESTROYED.with(|d| d.borrow().get(&id).copied().unwrap_or(0))
}

pub trait Fam: 'static {
    type S: RefCnt<Base = Tr> + Clone + std::ops::Deref<Target = Tr>;
    type W: RefCnt<Base = Tr> + Clone;
    const NAME: &'static str;
    fn new(t: Tr) -> Self::S;
    fn downgrade(s: &Self::S) -> Self::W;
    fn upgrade(w: &Self::W) -> Option<Self::S>;
    fn dangling() -> Self::W;
    fn counts(s: &Self::S) -> (usize, usize);
    /// std's own `Weak::as_ptr` (not the crate's `RefCnt::as_ptr`): identity of a Weak whose
    /// target is dead, independent of the raw representation the crate chooses
    fn weak_ptr(w: &Self::W) -> *const Tr;
}
pub struct ArcFam;
impl Fam for ArcFam {
    type S = std::sync::Arc<Tr>;
    type W = std::sync::Weak<Tr>;
    const NAME: &'static str = "Arc";
    fn new(t: Tr) -> Self::S {
        std::sync::Arc::new(t)
    }
    fn downgrade(s: &Self::S) -> Self::W {
        std::sync::Arc::downgrade(s)
    }
    fn upgrade(w: &Self::W) -> Option<Self::S> {
        w.upgrade()
    }
    fn dangling() -> Self::W {
        std::sync::Weak::new()
    }
    fn counts(s: &Self::S) -> (usize, usize) {
        (std::sync::Arc::strong_count(s), std::sync::Arc::weak_count(s))
    }
    fn weak_ptr(w: &Self::W) -> *const Tr {
        std::sync::Weak::as_ptr(w)
    }
}
pub struct RcFam;
impl Fam for RcFam {
    type S = std::rc::Rc<Tr>;
    type W = std::rc::Weak<Tr>;
    const NAME: &'static str = "Rc";
    fn new(t: Tr) -> Self::S {
        std::rc::Rc::new(t)
    }
    fn downgrade(s: &Self::S) -> Self::W {
        std::rc::Rc::downgrade(s)
    }
    fn upgrade(w: &Self::W) -> Option<Self::S> {
        w.upgrade()
    }
    fn dangling() -> Self::W {
        std::rc::Weak::new()
    }
    fn counts(s: &Self::S) -> (usize, usize) {
        (std::rc::Rc::strong_count(s), std::rc::Rc::weak_count(s))
    }
    fn weak_ptr(w: &Self::W) -> *const Tr {
        std::rc::Weak::as_ptr(w)
    }
}

enum Cont<F: Fam, St: AsStrategy<F::S> + AsStrategy<Option<F::S>> + AsStrategy<F::W> + AsStrategy<Option<F::W>>> {
    S(ArcSwapAny<F::S, St>),
    O(ArcSwapAny<Option<F::S>, St>),
    W(ArcSwapAny<F::W, St>),
    OW(ArcSwapAny<Option<F::W>, St>),
}
enum G<F: Fam, St: AsStrategy<F::S> + AsStrategy<Option<F::S>> + AsStrategy<F::W> + AsStrategy<Option<F::W>>> {
    S(Guard<F::S, St>),
    O(Guard<Option<F::S>, St>),
    W(Guard<F::W, St>),
    OW(Guard<Option<F::W>, St>),
}
enum H<F: Fam> {
    S(F::S),
    W(F::W),
}

#[derive(Default, Clone, Debug, Serialize, Deserialize)]
pub struct MStats {
    pub steps: usize,
    pub loads: usize,
    pub writes: usize,
    pub cas_success: usize,
    pub cas_fail: usize,
    pub shared_across_classes: usize,
    pub guard_across_foreign_write: usize,
    pub cross_class_exposures: usize,
    pub weak_target_died: usize,
    pub debts_taken_over: usize,
    pub f9a_avoided: usize,
    pub dead_weak_stored: usize,
    pub guard_outlives_container: usize,
    pub empties: usize,
    pub max_guards: usize,
    pub family_rc: usize,
    pub fallback_only: usize,
}

struct Alloc<F: Fam> {
    id: u32,
    ptr: *const Tr,
    pool: Option<F::S>,
    strong_owned: usize,
    weak_owned: usize,
    sguards: usize,
    wguards: usize,
}

struct GuardRec<F: Fam, St: AsStrategy<F::S> + AsStrategy<Option<F::S>> + AsStrategy<F::W> + AsStrategy<Option<F::W>>> {
    g: G<F, St>,
    alloc: Option<usize>,
    strong: bool,
    /// borrows through a slot (no count of its own yet)
    in_debt: bool,
    addr: usize,
    /// the slot (node, index) it borrows / borrowed through, where that could be observed
    slot: Option<(usize, usize)>,
    /// the guard may still refer to a slot although it owns a count by now (it was created
    /// borrowing and a writer paid for it, or it is the result of a successful compare_and_swap)
    may_have_slot: bool,
}

struct World<F: Fam, St: AsStrategy<F::S> + AsStrategy<Option<F::S>> + AsStrategy<F::W> + AsStrategy<Option<F::W>>> {
    allocs: Vec<Alloc<F>>,
    conts: Vec<Cont<F, St>>,
    cval: Vec<Option<usize>>,
    guards: Vec<GuardRec<F, St>>,
    handles: Vec<(H<F>, Option<usize>)>,
    next_id: u32,
    base_id: u32,
    stats: MStats,
    /// Slots that were already occupied when the case started: an earlier case of this process
    /// ended in a violation and everything it held was forgotten (nothing may be released in an
    /// unknown state). They are nobody's business here; without this the shrinker, which re-runs
    /// candidates in the same process, would "minimise" any failure to the empty program.
    base_slots: RefCell<HashMap<(usize, usize), usize>>,
}

/// "empty slot" in a snapshot
const EMPTY: usize = usize::MAX;

/// per node: (raw content, decoded address or EMPTY) of every slot, as the hook reports them
fn raw_snapshot() -> Vec<(usize, Vec<(usize, usize)>)> {
    verif::nodes().into_iter().map(|n| (n.addr, n.slots.iter().copied().zip(n.slot_addrs.iter().map(|a| a.unwrap_or(EMPTY))).collect())).collect()
}

thread_local! {
    static NEXT_ID: std::cell::Cell<u32> = const { std::cell::Cell::new(1) };
}

impl<F: Fam, St> World<F, St>
where
    St: AsStrategy<F::S> + AsStrategy<Option<F::S>> + AsStrategy<F::W> + AsStrategy<Option<F::W>> + CaS<F::S> + CaS<Option<F::S>> + CaS<F::W> + CaS<Option<F::W>> + Default,
{
    fn new_alloc(&mut self) -> usize {
        let id = NEXT_ID.with(|n| {
            let v = n.get();
            n.set(v + 1);
            v
        });
        let s = F::new(Tr { id, payload: (id as u64).wrapping_mul(0x9e3779b97f4a7c15), _pad: [0; 121] });
        let ptr = <F::S as RefCnt>::as_ptr(&s) as *const Tr;
        self.allocs.push(Alloc { id, ptr, pool: Some(s), strong_owned: 1, weak_owned: 0, sguards: 0, wguards: 0 });
        self.allocs.len() - 1
    }
    fn alive_model(&self, a: usize) -> bool {
        self.allocs[a].strong_owned + self.allocs[a].sguards > 0
    }
    /// a strong handle of allocation a for the harness's own use (None: nothing strong in the pool)
    fn resolve(&mut self, v: MVal) -> Option<usize> {
        match v {
            MVal::Pool(i) => {
                let i = i as usize % 3;
                if self.allocs[i].pool.is_some() {
                    Some(i)
                } else {
                    None
                }
            }
            MVal::Fresh => Some(self.new_alloc()),
            MVal::Empty => None,
        }
    }
    /// a strong pointer to allocation a taken from the pool handle (fresh allocations keep theirs
    /// until the end of the step that made them)
    fn strong_of(&self, a: usize) -> F::S {
        self.allocs[a].pool.as_ref().expect("pool handle").clone()
    }
    fn release_fresh(&mut self, v: MVal, a: Option<usize>) {
        // a fresh allocation is owned by whatever it was put into, not by the pool
        if let (MVal::Fresh, Some(a)) = (v, a) {
            self.allocs[a].pool = None;
            self.allocs[a].strong_owned -= 1;
        }
    }

    fn counts_of(&self, a: usize) -> Result<Option<(usize, usize)>, String> {
        let al = &self.allocs[a];
        let d = destroyed(al.id);
        if self.alive_model(a) {
            if d != 0 {
                return Err(format!("allocation id={} was destroyed {}x while it has {} strong owner(s) and {} strong guard(s)", al.id, d, al.strong_owned, al.sguards));
            }
            // safe: not destroyed, hence the allocation is there
            let tmp = std::mem::ManuallyDrop::new(unsafe { <F::S as RefCnt>::from_ptr(al.ptr) });
            Ok(Some(F::counts(&tmp)))
        } else {
            if d != 1 {
                return Err(format!("allocation id={} has no strong owner and no strong guard but was destroyed {}x", al.id, d));
            }
            Ok(None)
        }
    }
    fn owned_guards(&self, a: usize, strong: bool) -> usize {
        self.guards.iter().filter(|g| g.alloc == Some(a) && g.strong == strong && !g.in_debt).count()
    }
    fn check_alloc(&self, a: usize) -> Result<(), String> {
        let al = &self.allocs[a];
        if let Some((s, w)) = self.counts_of(a)? {
            let (es, ew) = (al.strong_owned + self.owned_guards(a, true), al.weak_owned + self.owned_guards(a, false));
            if s != es {
                return Err(format!("allocation id={}: strong count {} with {} strong owner(s) and {} owning strong guard(s) (of {})", al.id, s, al.strong_owned, self.owned_guards(a, true), al.sguards));
            }
            if w != ew {
                return Err(format!("allocation id={}: weak count {} with {} weak owner(s) and {} owning weak guard(s) (of {})", al.id, w, al.weak_owned, self.owned_guards(a, false), al.wguards));
            }
        }
        Ok(())
    }
    /// occupied slots == borrowing guards, address by address
    fn check_slots(&self) -> Result<(), String> {
        let mut want: HashMap<usize, usize> = HashMap::new();
        for g in self.guards.iter().filter(|g| g.in_debt) {
            *want.entry(g.addr).or_insert(0) += 1;
        }
        let mut have: HashMap<usize, usize> = HashMap::new();
        for n in verif::nodes() {
            if !n.idle {
                return Err(format!("node {:x} has control word {:x} between operations", n.addr, n.control));
            }
        }
        for (_, sl) in self.snapshot() {
            for s in sl {
                if s != EMPTY {
                    *have.entry(s).or_insert(0) += 1;
                }
            }
        }
        if want != have {
            return Err(format!("borrow slots hold {:x?} but the live borrowing guards account for {:x?}", have, want));
        }
        Ok(())
    }
    fn check_all(&self) -> Result<(), String> {
        for a in 0..self.allocs.len() {
            self.check_alloc(a)?;
        }
        self.check_slots()
    }

    fn ident_of_ptr(&self, p: *const Tr) -> Result<Option<usize>, String> {
        if p.is_null() {
            return Ok(None);
        }
        // the newest allocation at that address (addresses of destroyed allocations can be reused)
        match self.allocs.iter().rposition(|al| al.ptr == p) {
            Some(a) => Ok(Some(a)),
            None => Err(format!("pointer {:?} denotes no allocation of this program", p)),
        }
    }

    fn make_for(&mut self, kind: MKind, v: MVal) -> (Option<usize>, MVal) {
        let mut v = v;
        let mut a = self.resolve(v);
        if a.is_none() && kind == MKind::Strong {
            // a plain strong container cannot be empty
            v = MVal::Fresh;
            a = Some(self.new_alloc());
        }
        (a, v)
    }

    fn class_strong(kind: MKind) -> bool {
        !matches!(kind, MKind::Weak | MKind::OptWeak)
    }
    fn kind_of(&self, c: usize) -> MKind {
        match self.conts[c] {
            Cont::S(_) => MKind::Strong,
            Cont::O(_) => MKind::OptStrong,
            Cont::W(_) => MKind::Weak,
            Cont::OW(_) => MKind::OptWeak,
        }
    }

    fn own(&mut self, a: Option<usize>, strong: bool, delta: isize) {
        if let Some(a) = a {
            let f = if strong { &mut self.allocs[a].strong_owned } else { &mut self.allocs[a].weak_owned };
            *f = (*f as isize + delta) as usize;
        }
    }

    /// The slots of all nodes, as addresses (decoded by the crate's own hook; EMPTY = no debt): the
    /// audit is by address, whatever else the crate mixes into a slot's content. A slot that
    /// was already occupied when the case started and has not changed since (left behind by an
    /// earlier, failed case of this process) reads as empty.
    fn snapshot(&self) -> Vec<(usize, Vec<usize>)> {
        let mut base = self.base_slots.borrow_mut();
        raw_snapshot()
            .into_iter()
            .map(|(n, sl)| {
                let sl = sl
                    .into_iter()
                    .enumerate()
                    .map(|(i, (raw, addr))| {
                        if let Some(&b) = base.get(&(n, i)) {
                            if b == raw {
                                return EMPTY;
                            }
                            base.remove(&(n, i));
                        }
                        addr
                    })
                    .collect();
                (n, sl)
            })
            .collect()
    }
    fn slots_with(snap: &[(usize, Vec<usize>)], addr: usize) -> usize {
        snap.iter().map(|(_, sl)| sl.iter().filter(|&&s| s == addr).count()).sum()
    }
    /// slots that hold `addr` in `after` but not in `before` (or the other way round)
    fn changed(before: &[(usize, Vec<usize>)], after: &[(usize, Vec<usize>)], from_other_to: bool, addr: usize) -> Vec<(usize, usize)> {
        let mut v = Vec::new();
        for (n, sl) in after {
            let old = before.iter().find(|(b, _)| b == n).map(|(_, s)| s.clone()).unwrap_or_else(|| vec![EMPTY; sl.len()]);
            for (i, &x) in sl.iter().enumerate() {
                let o = old.get(i).copied().unwrap_or(EMPTY);
                if from_other_to && x == addr && o != addr {
                    v.push((*n, i));
                }
                if !from_other_to && o == addr && x != addr {
                    v.push((*n, i));
                }
            }
        }
        v
    }

    fn avoid(&mut self, old: Option<usize>, strong: bool) -> bool {
        if AVOID_F9A.load(std::sync::atomic::Ordering::Relaxed) && old.is_some() && self.guards.iter().any(|g| g.alloc == old && g.in_debt && g.strong != strong) {
            self.stats.f9a_avoided += 1;
            return true;
        }
        false
    }

    /// A container of class `strong` is about to give `old` up (bookkeeping only; what the debt
    /// walk does to the borrowing guards is *observed* afterwards, see `resync_borrows`).
    fn before_removal(&mut self, old: Option<usize>, _strong: bool) -> usize {
        if self.guards.iter().any(|g| g.alloc.is_some() && g.alloc == old) {
            self.stats.guard_across_foreign_write += 1;
        }
        0
    }

    /// After a write: every borrowing guard whose slot no longer holds its address has been paid
    /// for (it owns a count now). Which guards a debt walk pays is the crate's business - it may
    /// skip the walk when the stored pointer does not change, it may key debts more finely - so
    /// that is read off the slots, and the counts are then checked against what was observed.
    /// Returns the number of guards on `old` of the *other* class than the writing container that
    /// were paid: those are the cross-class payments of finding F9a.
    fn resync_borrows(&mut self, old: Option<usize>, strong: bool) -> usize {
        let snap = self.snapshot();
        let mut crossed = 0;
        for g in self.guards.iter_mut() {
            if g.in_debt {
                if let Some((n, i)) = g.slot {
                    let cur = snap.iter().find(|(a, _)| *a == n).and_then(|(_, sl)| sl.get(i).copied()).unwrap_or(EMPTY);
                    if cur != g.addr {
                        g.in_debt = false;
                        if g.alloc.is_some() && g.alloc == old && g.strong != strong {
                            crossed += 1;
                        }
                    }
                }
            }
        }
        crossed
    }

    /// after a write on a container of class `strong` that removed `old`: the known cross-class
    /// payment, or a plain violation
    fn after_removal(&mut self, old: Option<usize>, strong: bool, crossed: usize, prior: Result<(), String>) -> Result<(), String> {
        if crossed == 0 {
            prior?;
            return self.check_all();
        }
        self.stats.cross_class_exposures += 1;
        let a = old.unwrap();
        // forget the guards whose debt was paid with the wrong kind of count: releasing them
        // would take a count that was never added
        let mut i = 0;
        while i < self.guards.len() {
            if self.guards[i].alloc == Some(a) && self.guards[i].strong != strong {
                let r = self.guards.swap_remove(i);
                if r.strong {
                    self.allocs[a].sguards -= 1;
                } else {
                    self.allocs[a].wguards -= 1;
                }
                std::mem::forget(r.g);
            } else {
                i += 1;
            }
        }
        Err(format!("a write to a {} container paid {} borrow slot(s) of {} guards on allocation id={} {}", if strong { "strong" } else { "weak" }, crossed, if strong { "weak" } else { "strong" }, self.allocs[a].id, F9A_MARK))
    }

    fn push_guard(&mut self, g: G<F, St>, c: usize, what: &str, before: &[(usize, Vec<usize>)], cas_success: bool) -> Result<(), String> {
        let p = match &g {
            G::S(g) => <F::S as RefCnt>::as_ptr(g) as *const Tr,
            G::O(g) => <Option<F::S> as RefCnt>::as_ptr(g) as *const Tr,
            G::W(g) => <F::W as RefCnt>::as_ptr(g) as *const Tr,
            G::OW(g) => <Option<F::W> as RefCnt>::as_ptr(g) as *const Tr,
        };
        let strong = !matches!(g, G::W(_) | G::OW(_));
        let got = match self.ident_of_ptr(p) {
            Ok(x) => x,
            Err(m) => {
                std::mem::forget(g);
                return Err(format!("{} of container {}: {}", what, c, m));
            }
        };
        let addr = p as usize;
        let after = self.snapshot();
        let have = Self::slots_with(&after, addr);
        let tracked = self.guards.iter().filter(|g| g.in_debt && g.addr == addr).count();
        let (in_debt, slot) = if have == tracked + 1 {
            let free: Vec<(usize, usize)> = Self::changed(before, &after, true, addr).into_iter().filter(|k| !self.guards.iter().any(|g| g.in_debt && g.slot == Some(*k))).collect();
            let all: Vec<(usize, usize)> = after.iter().flat_map(|(n, sl)| sl.iter().enumerate().filter(|(_, &x)| x == addr).map(move |(i, _)| (*n, i))).filter(|k| !self.guards.iter().any(|g| g.in_debt && g.slot == Some(*k))).collect();
            let k = if free.len() == 1 { free[0] } else if all.len() == 1 { all[0] } else {
                std::mem::forget(g);
                return Err(format!("{} of container {}: cannot tell which slot the new guard borrows through ({:?} / {:?})", what, c, free, all));
            };
            (true, Some(k))
        } else if have == tracked {
            (false, None)
        } else {
            std::mem::forget(g);
            return Err(format!("{} of container {}: {} slot(s) hold {:x} but {} borrowing guard(s) were alive before it", what, c, have, addr, tracked));
        };
        if let Some(a) = got {
            if strong {
                self.allocs[a].sguards += 1;
            } else {
                self.allocs[a].wguards += 1;
            }
        }
        self.guards.push(GuardRec { g, alloc: got, strong, in_debt, addr, slot, may_have_slot: in_debt || cas_success });
        self.stats.max_guards = self.stats.max_guards.max(self.guards.len());
        Ok(())
    }

    fn load(&mut self, c: usize) -> Result<(), String> {
        self.stats.loads += 1;
        let before = self.snapshot();
        let g = match &self.conts[c] {
            Cont::S(x) => G::S(x.load()),
            Cont::O(x) => G::O(x.load()),
            Cont::W(x) => G::W(x.load()),
            Cont::OW(x) => G::OW(x.load()),
        };
        let want = self.cval[c];
        self.push_guard(g, c, "load", &before, false)?;
        let got = self.guards.last().unwrap().alloc;
        if got != want {
            return Err(format!("load of container {} ({:?}) gives allocation {:?}, the model holds {:?}", c, self.kind_of(c), got.map(|a| self.allocs[a].id), want.map(|a| self.allocs[a].id)));
        }
        self.check_all()
    }

    fn drop_guard(&mut self, i: usize) -> Result<(), String> {
        self.drop_guard_(i, false)
    }
    /// `force`: the final release of everything (an avoided release would never end)
    fn drop_guard_(&mut self, i: usize, force: bool) -> Result<(), String> {
        if !force {
            let g = &self.guards[i];
            if !g.in_debt && g.may_have_slot && g.alloc.is_some() {
                let (a, st) = (g.alloc, g.strong);
                if self.avoid(a, st) {
                    return Ok(());
                }
            }
        }
        let r = self.guards.swap_remove(i);
        if let Some(a) = r.alloc {
            if r.strong {
                self.allocs[a].sguards -= 1;
            } else {
                self.allocs[a].wguards -= 1;
            }
        }
        let before = self.snapshot();
        let (addr, strong, in_debt, may_have_slot, alloc) = (r.addr, r.strong, r.in_debt, r.may_have_slot, r.alloc);
        drop(r.g);
        if !in_debt && may_have_slot {
            // A guard that once borrowed through a slot and was paid for by a writer still
            // refers to that slot. If a later guard on the same address borrows through it now,
            // the release pays that debt instead of giving the count back ("we'll just pay the
            // debt for that someone else"): the count moves to the other guard. Between guards of
            // one class that is exact; between classes it is finding F9a again.
            let after = self.snapshot();
            let cleared = Self::changed(&before, &after, false, addr);
            if cleared.len() == 1 {
                if let Some(j) = self.guards.iter().position(|g| g.in_debt && g.slot == Some(cleared[0]) && g.addr == addr) {
                    if alloc.is_none() || self.guards[j].strong == strong {
                        self.guards[j].in_debt = false;
                        self.stats.debts_taken_over += 1;
                    } else {
                        self.stats.cross_class_exposures += 1;
                        let g2 = self.guards.swap_remove(j);
                        let a = alloc.unwrap();
                        if g2.strong {
                            self.allocs[a].sguards -= 1;
                        } else {
                            self.allocs[a].wguards -= 1;
                        }
                        std::mem::forget(g2.g);
                        return Err(format!("releasing an owning {} guard on allocation id={} cleared the slot a {} guard borrows it through and kept the count {}", if strong { "strong" } else { "weak" }, self.allocs[a].id, if strong { "weak" } else { "strong" }, F9A_MARK));
                    }
                }
            }
        }
        self.check_all()
    }

    fn deref_guard(&mut self, i: usize) -> Result<(), String> {
        let r = &self.guards[i];
        match (&r.g, r.alloc) {
            (G::S(g), Some(a)) => {
                if destroyed(self.allocs[a].id) != 0 {
                    return Err(format!("a guard denotes allocation id={} which is already destroyed", self.allocs[a].id));
                }
                let t: &Tr = g;
                if t.id != self.allocs[a].id || t.payload != (self.allocs[a].id as u64).wrapping_mul(0x9e3779b97f4a7c15) {
                    return Err(format!("a guard on allocation id={} reads id={}", self.allocs[a].id, t.id));
                }
            }
            (G::O(g), Some(a)) => {
                if destroyed(self.allocs[a].id) != 0 {
                    return Err(format!("a guard denotes allocation id={} which is already destroyed", self.allocs[a].id));
                }
                match &**g {
                    Some(s) if s.id == self.allocs[a].id => {}
                    _ => return Err(format!("an Option guard on allocation id={} reads something else", self.allocs[a].id)),
                }
            }
            (G::O(g), None) => {
                if g.is_some() {
                    return Err("a guard loaded from an empty container is Some".into());
                }
            }
            (G::OW(g), a) => {
                let up = match &**g {
                    Some(w) => F::upgrade(w),
                    None => None,
                };
                if a.is_some() != g.is_some() {
                    return Err(format!("an Option<Weak> guard is {} but the model holds {:?}", if g.is_some() { "Some" } else { "None" }, a.map(|a| self.allocs[a].id)));
                }
                let want = a.filter(|&a| self.alive_model(a));
                if let (Some(w), Some(a)) = (&**g, a) {
                    self.weak_identity(w, a, "an Option<Weak> guard")?;
                }
                match (&up, want) {
                    (Some(s), Some(a)) if s.id == self.allocs[a].id => {}
                    (None, None) => {
                        if a.is_some() {
                            self.stats.weak_target_died += 1;
                        }
                    }
                    _ => return Err(format!("an Option<Weak> guard upgrades to {:?}, the model says {:?}", up.as_ref().map(|s| s.id), want.map(|a| self.allocs[a].id))),
                }
            }
            (G::W(g), a) => {
                let up = F::upgrade(g);
                let want = a.filter(|&a| self.alive_model(a));
                match a {
                    Some(a) => self.weak_identity(g, a, "a Weak guard")?,
                    // the model holds the dangling Weak: the guard must not be a Weak of any
                    // allocation of the case (dead or alive)
                    None => {
                        let p = F::weak_ptr(g);
                        if let Some(x) = self.allocs.iter().find(|x| x.ptr == p && (x.strong_owned + x.weak_owned + x.sguards + x.wguards > 0 || x.pool.is_some())) {
                            return Err(format!("a Weak guard loaded while the model holds the dangling Weak is a Weak of allocation id={}", x.id));
                        }
                    }
                }
                match (&up, want) {
                    (Some(s), Some(a)) if s.id == self.allocs[a].id => {}
                    (None, None) => {
                        if a.is_some() {
                            self.stats.weak_target_died += 1;
                        }
                    }
                    _ => return Err(format!("a Weak guard upgrades to {:?}, the model says {:?}", up.as_ref().map(|s| s.id), want.map(|a| self.allocs[a].id))),
                }
            }
            (G::S(_), None) => return Err("a strong guard without a value".into()),
        }
        Ok(())
    }

    /// A Weak given out for model allocation `a` is a Weak *of that allocation*, also when the
    /// target is dead and `upgrade` cannot tell (std's `Weak::as_ptr`, no dereference).
    fn weak_identity(&self, w: &F::W, a: usize, what: &str) -> Result<(), String> {
        if F::weak_ptr(w) != self.allocs[a].ptr {
            return Err(format!("{} that the model says denotes allocation id={} is a Weak of another allocation ({:p} instead of {:p}, target {})", what, self.allocs[a].id, F::weak_ptr(w), self.allocs[a].ptr, if self.alive_model(a) { "alive" } else { "dead" }));
        }
        Ok(())
    }

    fn write(&mut self, c: usize, v: MVal, swap: bool) -> Result<(), String> {
        self.write_(c, v, swap, false)
    }
    fn write_(&mut self, c: usize, v: MVal, swap: bool, via_rcu: bool) -> Result<(), String> {
        self.stats.writes += 1;
        let kind = self.kind_of(c);
        let strong = Self::class_strong(kind);
        let (a, v) = self.make_for(kind, v);
        if a.is_none() {
            self.stats.empties += 1;
        }
        let old = self.cval[c];
        if self.avoid(old, strong) {
            self.release_fresh(v, a);
            return self.check_all();
        }
        let n_s: Option<F::S> = if strong { a.map(|a| self.strong_of(a)) } else { None };
        let n_w: F::W = match a {
            Some(a) if !strong => F::downgrade(&self.strong_of(a)),
            _ => F::dangling(),
        };
        let exposed = self.before_removal(old, strong);
        // the model first (the new owner), then the real thing
        self.own(a, strong, 1);
        let mut out: Option<(*const Tr, Option<H<F>>)> = None;
        match &self.conts[c] {
            Cont::S(x) => {
                let n = n_s.unwrap();
                if swap {
                    let o = if via_rcu { x.rcu(move |_| n.clone()) } else { x.swap(n) };
                    out = Some((<F::S as RefCnt>::as_ptr(&o) as *const Tr, Some(H::S(o))));
                } else {
                    x.store(n);
                }
            }
            Cont::O(x) => {
                if swap {
                    let o = if via_rcu { x.rcu(move |_| n_s.clone()) } else { x.swap(n_s) };
                    out = Some((<Option<F::S> as RefCnt>::as_ptr(&o) as *const Tr, o.map(H::S)));
                } else {
                    x.store(n_s);
                }
            }
            Cont::W(x) => {
                if swap {
                    let o = if via_rcu { x.rcu(move |_| n_w.clone()) } else { x.swap(n_w) };
                    let p = <F::W as RefCnt>::as_ptr(&o) as *const Tr;
                    out = Some((p, if p.is_null() { None } else { Some(H::W(o)) }));
                } else {
                    x.store(n_w);
                }
            }
            Cont::OW(x) => {
                let n = if a.is_some() { Some(n_w) } else { None };
                if swap {
                    let o = if via_rcu { x.rcu(move |_| n.clone()) } else { x.swap(n) };
                    out = Some((<Option<F::W> as RefCnt>::as_ptr(&o) as *const Tr, o.map(H::W)));
                } else {
                    x.store(n);
                }
            }
        }
        self.cval[c] = a;
        self.release_fresh(v, a);
        let exposed = exposed + self.resync_borrows(old, strong);
        match out {
            None => self.own(old, strong, -1),
            Some((p, h)) => {
                let id = match self.ident_of_ptr(p) {
                    Ok(i) => i,
                    Err(m) => {
                        std::mem::forget(h);
                        return Err(m);
                    }
                };
                if id != old {
                    std::mem::forget(h);
                    return Err(format!("swap on container {} returned allocation {:?}, the model held {:?}", c, id.map(|a| self.allocs[a].id), old.map(|a| self.allocs[a].id)));
                }
                if let (Some(H::W(o)), Some(a)) = (&h, old) {
                    if let Err(m) = self.weak_identity(o, a, "the Weak returned by swap/rcu") {
                        std::mem::forget(h);
                        return Err(m);
                    }
                }
                // the container's reference moved into the returned handle
                match h {
                    Some(h) => self.handles.push((h, old)),
                    None => self.own(old, strong, -1),
                }
            }
        }
        self.after_removal(old, strong, exposed, Ok(()))
    }

    fn write_handle(&mut self, c: usize, i: usize) -> Result<(), String> {
        let kind = self.kind_of(c);
        let strong = Self::class_strong(kind);
        let (h_strong, a) = (matches!(self.handles[i].0, H::S(_)), self.handles[i].1);
        if h_strong != strong {
            return Ok(());
        }
        self.stats.writes += 1;
        if let Some(a) = a {
            if !self.alive_model(a) {
                self.stats.dead_weak_stored += 1;
            }
        }
        let old = self.cval[c];
        if self.avoid(old, strong) {
            return self.check_all();
        }
        let n_s: Option<F::S> = match &self.handles[i].0 {
            H::S(s) => Some(s.clone()),
            _ => None,
        };
        let n_w: F::W = match &self.handles[i].0 {
            H::W(w) => w.clone(),
            _ => F::dangling(),
        };
        let exposed = self.before_removal(old, strong);
        self.own(a, strong, 1);
        match &self.conts[c] {
            Cont::S(x) => x.store(n_s.unwrap()),
            Cont::O(x) => x.store(n_s),
            Cont::W(x) => x.store(n_w),
            Cont::OW(x) => x.store(if a.is_some() { Some(n_w) } else { None }),
        }
        self.cval[c] = a;
        self.own(old, strong, -1);
        let exposed = exposed + self.resync_borrows(old, strong);
        self.after_removal(old, strong, exposed, Ok(()))
    }

    fn cas(&mut self, c: usize, cur: MVal, new: MVal) -> Result<(), String> {
        let kind = self.kind_of(c);
        let strong = Self::class_strong(kind);
        // `current`: a pool allocation, or the empty value
        let cur_a = match cur {
            MVal::Pool(_) => self.resolve(cur),
            _ => None,
        };
        if cur_a.is_none() && kind == MKind::Strong {
            return Ok(());
        }
        let (a, v) = self.make_for(kind, new);
        let old = self.cval[c];
        let success = old == cur_a;
        if success && self.avoid(old, strong) {
            self.release_fresh(v, a);
            return self.check_all();
        }
        let cur_s: Option<F::S> = if strong { cur_a.map(|a| self.strong_of(a)) } else { None };
        let cur_w: F::W = match cur_a {
            Some(a) if !strong => F::downgrade(&self.strong_of(a)),
            _ => F::dangling(),
        };
        let n_s: Option<F::S> = if strong { a.map(|a| self.strong_of(a)) } else { None };
        let n_w: F::W = match a {
            Some(a) if !strong => F::downgrade(&self.strong_of(a)),
            _ => F::dangling(),
        };
        let exposed = if success { self.before_removal(old, strong) } else { 0 };
        let before = self.snapshot();
        let prev: G<F, St> = match &self.conts[c] {
            Cont::S(x) => G::S(x.compare_and_swap(cur_s.as_ref().unwrap(), n_s.unwrap())),
            Cont::O(x) => G::O(x.compare_and_swap(&cur_s, n_s)),
            Cont::W(x) => G::W(x.compare_and_swap(&cur_w, n_w)),
            Cont::OW(x) => {
                let cur_ow = if cur_a.is_some() { Some(cur_w.clone()) } else { None };
                G::OW(x.compare_and_swap(&cur_ow, if a.is_some() { Some(n_w) } else { None }))
            }
        };
        drop(cur_s);
        drop(cur_w);
        let exposed = if success { exposed + self.resync_borrows(old, strong) } else { exposed };
        if success {
            self.stats.cas_success += 1;
            self.own(a, strong, 1);
            self.own(old, strong, -1);
            self.cval[c] = a;
        } else {
            self.stats.cas_fail += 1;
        }
        self.release_fresh(v, a);
        // the result is a guard on the previous value
        let pushed = self.push_guard(prev, c, "compare_and_swap", &before, success);
        if pushed.is_ok() {
            let got = self.guards.last().unwrap().alloc;
            if got != old {
                return Err(format!("compare_and_swap on container {} returned allocation {:?}, the model held {:?}", c, got.map(|a| self.allocs[a].id), old.map(|a| self.allocs[a].id)));
            }
        }
        if success {
            self.after_removal(old, strong, exposed, pushed)
        } else {
            pushed?;
            self.check_all()
        }
    }

    fn load_full(&mut self, c: usize) -> Result<(), String> {
        self.stats.loads += 1;
        let (p, h): (*const Tr, Option<H<F>>) = match &self.conts[c] {
            Cont::S(x) => {
                let v = x.load_full();
                (<F::S as RefCnt>::as_ptr(&v) as *const Tr, Some(H::S(v)))
            }
            Cont::O(x) => {
                let v = x.load_full();
                (<Option<F::S> as RefCnt>::as_ptr(&v) as *const Tr, v.map(H::S))
            }
            Cont::W(x) => {
                let v = x.load_full();
                let p = <F::W as RefCnt>::as_ptr(&v) as *const Tr;
                (p, if p.is_null() { None } else { Some(H::W(v)) })
            }
            Cont::OW(x) => {
                let v = x.load_full();
                (<Option<F::W> as RefCnt>::as_ptr(&v) as *const Tr, v.map(H::W))
            }
        };
        let id = match self.ident_of_ptr(p) {
            Ok(i) => i,
            Err(m) => {
                std::mem::forget(h);
                return Err(m);
            }
        };
        if id != self.cval[c] {
            std::mem::forget(h);
            return Err(format!("load_full of container {} gives allocation {:?}, the model holds {:?}", c, id.map(|a| self.allocs[a].id), self.cval[c].map(|a| self.allocs[a].id)));
        }
        if let (Some(H::W(o)), Some(a)) = (&h, id) {
            if let Err(m) = self.weak_identity(o, a, "the Weak returned by load_full") {
                std::mem::forget(h);
                return Err(m);
            }
        }
        if let Some(h) = h {
            let strong = matches!(h, H::S(_));
            self.own(id, strong, 1);
            self.handles.push((h, id));
        }
        self.check_all()
    }

    fn drop_handle(&mut self, i: usize) -> Result<(), String> {
        let (h, a) = self.handles.swap_remove(i);
        let strong = matches!(h, H::S(_));
        self.own(a, strong, -1);
        drop(h);
        self.check_all()
    }
}

/// give the containers up (drop, or into_inner and drop what comes out); guards may still be alive
fn release_conts<F: Fam, St>(w: &mut World<F, St>, consume: bool, quiet: bool) -> Result<(), String>
where
    St: AsStrategy<F::S> + AsStrategy<Option<F::S>> + AsStrategy<F::W> + AsStrategy<Option<F::W>> + CaS<F::S> + CaS<Option<F::S>> + CaS<F::W> + CaS<Option<F::W>> + Default,
{
    let mut result = Ok(());
    while let Some(c) = w.conts.pop() {
        let a = w.cval.pop().unwrap();
        let strong = !matches!(c, Cont::W(_) | Cont::OW(_));
        if w.guards.iter().any(|g| g.alloc.is_some() && g.alloc == a) {
            w.stats.guard_outlives_container += 1;
        }
        w.own(a, strong, -1);
        if consume {
            match c {
                Cont::S(x) => drop(x.into_inner()),
                Cont::O(x) => drop(x.into_inner()),
                Cont::W(x) => drop(x.into_inner()),
                Cont::OW(x) => drop(x.into_inner()),
            }
        } else {
            drop(c);
        }
        let crossed = w.resync_borrows(a, strong);
        if !quiet {
            let r = w.after_removal(a, strong, crossed, Ok(()));
            if result.is_ok() {
                result = r;
            }
            if result.is_err() {
                break;
            }
        }
    }
    result
}

fn run_with<F: Fam, St>(case: &MCase) -> Result<MStats, String>
where
    St: AsStrategy<F::S> + AsStrategy<Option<F::S>> + AsStrategy<F::W> + AsStrategy<Option<F::W>> + CaS<F::S> + CaS<Option<F::S>> + CaS<F::W> + CaS<Option<F::W>> + Default,
{
    let live0 = crate::alloc_count::live();
    let mut w: World<F, St> = World { allocs: Vec::new(), conts: Vec::new(), cval: Vec::new(), guards: Vec::new(), handles: Vec::new(), next_id: 0, base_id: 0, stats: MStats::default(), base_slots: RefCell::new(HashMap::new()) };
    for (n, sl) in raw_snapshot() {
        for (i, (raw, addr)) in sl.into_iter().enumerate() {
            if addr != EMPTY {
                w.base_slots.borrow_mut().insert((n, i), raw);
            }
        }
    }
    w.stats.family_rc = case.rc_family as usize;
    w.stats.fallback_only = case.fallback_only as usize;
    for _ in 0..3 {
        w.new_alloc();
    }
    for (i, k) in case.kinds.iter().enumerate() {
        let (a, v) = w.make_for(*k, case.init[i % case.init.len()]);
        let strong = World::<F, St>::class_strong(*k);
        w.own(a, strong, 1);
        let c = match k {
            MKind::Strong => Cont::S(ArcSwapAny::with_strategy(w.strong_of(a.unwrap()), St::default())),
            MKind::OptStrong => Cont::O(ArcSwapAny::with_strategy(a.map(|a| w.strong_of(a)), St::default())),
            MKind::OptWeak => Cont::OW(ArcSwapAny::with_strategy(a.map(|a| F::downgrade(&w.strong_of(a))), St::default())),
            MKind::Weak => Cont::W(ArcSwapAny::with_strategy(
                match a {
                    Some(a) => F::downgrade(&w.strong_of(a)),
                    None => F::dangling(),
                },
                St::default(),
            )),
        };
        w.conts.push(c);
        w.cval.push(a);
        w.release_fresh(v, a);
    }
    // an allocation that sits in containers of both classes
    for a in 0..w.allocs.len() {
        let s = (0..w.conts.len()).any(|c| w.cval[c] == Some(a) && World::<F, St>::class_strong(w.kind_of(c)));
        let k = (0..w.conts.len()).any(|c| w.cval[c] == Some(a) && !World::<F, St>::class_strong(w.kind_of(c)));
        if s && k {
            w.stats.shared_across_classes += 1;
        }
    }
    let mut result = w.check_all();
    if result.is_ok() {
        let nc = w.conts.len();
        for op in &case.ops {
            w.stats.steps += 1;
            let r = match *op {
                MOp::Load(c) => w.load(c as usize % nc),
                MOp::LoadFull(c) => w.load_full(c as usize % nc),
                MOp::Store(c, v) => w.write(c as usize % nc, v, false),
                MOp::Swap(c, v) => w.write(c as usize % nc, v, true),
                MOp::Rcu(c, v) => w.write_(c as usize % nc, v, true, true),
                MOp::Cas(c, a, b) => w.cas(c as usize % nc, a, b),
                MOp::DerefGuard(i) if !w.guards.is_empty() => {
                    let i = i as usize * w.guards.len() >> 8;
                    w.deref_guard(i)
                }
                MOp::DropGuard(i) if !w.guards.is_empty() => {
                    let i = i as usize * w.guards.len() >> 8;
                    w.drop_guard(i)
                }
                MOp::DropHandle(i) if !w.handles.is_empty() => {
                    let i = i as usize * w.handles.len() >> 8;
                    w.drop_handle(i)
                }
                MOp::StoreHandle(c, i) if !w.handles.is_empty() => {
                    let i = i as usize * w.handles.len() >> 8;
                    w.write_handle(c as usize % nc, i)
                }
                MOp::DropPool(i) => {
                    let i = i as usize % 3;
                    if w.allocs[i].pool.take().is_some() {
                        w.allocs[i].strong_owned -= 1;
                    }
                    w.check_all()
                }
                MOp::Hold(c, n) => {
                    let mut r = Ok(());
                    for _ in 0..n {
                        r = w.load(c as usize % nc);
                        if r.is_err() {
                            break;
                        }
                    }
                    r
                }
                _ => Ok(()),
            };
            if std::env::var("VCHECK_TRACE").is_ok() {
                let al: Vec<String> = (0..w.allocs.len()).map(|a| format!("id{}:{:?} so={} wo={} sg={} wg={}", w.allocs[a].id, w.counts_of(a).ok().flatten(), w.allocs[a].strong_owned, w.allocs[a].weak_owned, w.allocs[a].sguards, w.allocs[a].wguards)).collect();
                let gs: Vec<String> = w.guards.iter().map(|g| format!("{}{}{}", if g.strong { "S" } else { "W" }, g.alloc.map(|a| w.allocs[a].id as i64).unwrap_or(-1), if g.in_debt { "d" } else { "o" })).collect();
                println!("  step {} {:?} -> {:?}\n     allocs {:?}\n     cval {:?} guards {:?}", w.stats.steps, op, r, al, w.cval, gs);
            }
            if let Err(m) = r {
                result = Err(format!("step {} {:?}: {}", w.stats.steps, op, m));
                break;
            }
        }
    }
    let marked = matches!(&result, Err(m) if m.contains(F9A_MARK));
    if result.is_err() && !marked {
        // unknown state: releasing anything might touch freed memory
        let stats = w.stats.clone();
        std::mem::forget(w);
        let _ = stats;
        return result.map(|_| MStats::default());
    }
    // orderly release: guards, handles, containers (no guard is alive when a container goes, so no
    // cross-class payment can happen here), then the pool; everything must be destroyed exactly once
    if case.cont_first && !marked {
        let r = release_conts(&mut w, case.consume, false);
        if result.is_ok() {
            result = r;
        }
    }
    let marked = matches!(&result, Err(m) if m.contains(F9A_MARK));
    while !w.guards.is_empty() {
        let r = w.drop_guard_(w.guards.len() - 1, true);
        if result.is_ok() {
            result = r;
        }
    }
    while !w.handles.is_empty() {
        let r = w.drop_handle(w.handles.len() - 1);
        if result.is_ok() {
            result = r;
        }
    }
    {
        let r = release_conts(&mut w, case.consume, marked);
        if result.is_ok() {
            result = r;
        }
    }
    for a in 0..w.allocs.len() {
        if w.allocs[a].pool.take().is_some() {
            w.allocs[a].strong_owned -= 1;
        }
    }
    if !marked {
        for a in 0..w.allocs.len() {
            let d = destroyed(w.allocs[a].id);
            if d != 1 && result.is_ok() {
                result = Err(format!("at the end allocation id={} was destroyed {}x", w.allocs[a].id, d));
            }
        }
    }
    DESTROYED.with(|d| d.borrow_mut().clear());
    if !marked && result.is_ok() {
        // every allocation of the program is gone - also the ones whose value was destroyed
        // while weak references kept the block (a leaked weak count of a dead target shows only
        // here)
        let left = crate::alloc_count::live() - live0;
        if left != 0 {
            result = Err(format!("{} allocation(s) of this program were never freed after everything was released (a leaked strong or weak count)", left));
        }
    }
    if marked {
        // the known finding leaves wrong counts behind, but never an occupied slot
        if let Err(m) = w.check_slots() {
            return Err(format!("after the cross-class payment and the release of everything else: {}", m));
        }
    }
    result.map(|_| w.stats.clone())
}

pub fn run_case(case: &MCase) -> Result<MStats, String> {
    if case.kinds.is_empty() || case.init.is_empty() {
        return Ok(MStats::default());
    }
    let r = match (case.rc_family, case.fallback_only) {
        (false, false) => run_with::<ArcFam, DefaultStrategy>(case),
        (false, true) => run_with::<ArcFam, FillFastSlots>(case),
        (true, false) => run_with::<RcFam, DefaultStrategy>(case),
        (true, true) => run_with::<RcFam, FillFastSlots>(case),
    };
    r.map_err(|m| format!("{} family, {} strategy: {}", if case.rc_family { "Rc" } else { "Arc" }, if case.fallback_only { "fallback-only" } else { "default" }, m))
}

pub fn nontrivial(s: &MStats) -> bool {
    s.shared_across_classes > 0 || s.guard_across_foreign_write > 0 || s.weak_target_died > 0
}

#[cfg(test)]
mod tests {
    use super::*;
    #[test]
    fn known_case_leaves_no_state() {
        let f9a: MCase = serde_json::from_str(r#"{"fallback_only": false, "init": [{"Pool": 2}, {"Pool": 0}, {"Pool": 0}, {"Pool": 0}], "kinds": ["Weak", "Strong"], "ops": [{"Load": 0}, {"Load": 0}, {"Load": 0}, {"Store": [1, {"Pool": 2}]}, {"Swap": [1, {"Pool": 0}]}], "rc_family": false}"#).unwrap();
        let triv: MCase = serde_json::from_str(r#"{"fallback_only": false, "init": [{"Pool": 0}], "kinds": ["Strong"], "ops": [{"Load": 0}], "rc_family": false}"#).unwrap();
        for rc in [false, true] {
            let mut c = f9a.clone();
            c.rc_family = rc;
            let r = run_case(&c);
            println!("{:?}", r.as_ref().err());
            assert!(r.unwrap_err().contains(F9A_MARK));
            run_case(&triv).unwrap();
        }
    }
}
