use vcheck::{checks, driver, e2, litmus};

fn usage() -> ! {
    eprintln!("usage: vcheck run <ID> <quick|thorough> | replay <file> | selftest | worker ...");
    std::process::exit(2)
}

fn main() {
    let args: Vec<String> = std::env::args().collect();
    let code = match args.get(1).map(|s| s.as_str()) {
        Some("selftest") => {
            driver::install();
            let (n, ok) = litmus::main(1500, std::env::var("VCHECK_VERBOSE").is_ok());
            println!("litmus: {}/{} shapes have the C++20 verdict", ok, n);
            let (cases, same) = driver::determinism_selftest(60);
            println!("determinism: {}/{} sampled E1 cases gave identical decisions, step counts and traces when run twice", same, cases);
            if ok == n && same == cases {
                0
            } else {
                1
            }
        }
        Some("worker") => {
            let id = &args[2];
            let widx: u64 = args[3].parse().unwrap();
            let n: usize = args[4].parse().unwrap();
            let seed: u64 = args[5].parse().unwrap();
            if checks::e1_check(id).is_some() {
                driver::worker(id, widx, n, seed, &args[6])
            } else {
                e2::worker(id, widx, n, seed, &args[6])
            }
        }
        Some("run") => {
            let id = args.get(2).unwrap_or_else(|| usage());
            let tier = args.get(3).map(|s| s.as_str()).unwrap_or("quick");
            if id == "C19" {
                e2::c19(tier)
            } else {
                driver::parent(id, tier)
            }
        }
        Some("replay") => driver::replay(args.get(2).unwrap_or_else(|| usage())),
        _ => usage(),
    };
    std::process::exit(code);
}