//! Litmus self-test of the memory model: each shape with its C++20 verdict (forbidden outcomes
//! must never appear, listed allowed outcomes must appear).
use crate::rt::{self, h_access, h_fence_acq, Mode, Spec};
use arc_swap::verif::{Op, Ordering, Ordering::*};
use std::collections::BTreeMap;
use std::panic::Location;
use std::sync::atomic::AtomicUsize as Real;
use std::sync::{Arc, Mutex};

pub struct Mem(pub Vec<Real>);
impl Mem {
    #[track_caller]
    fn acc(&self, i: usize, op: Op, a: usize, b: usize, s: Ordering, f: Ordering) -> (usize, bool) {
        let cell = &self.0[i];
        match h_access(cell as *const _ as usize, cell.load(Relaxed), op, a, b, s, f, Location::caller()) {
            Some((v, ok, n)) => {
                if matches!(op, Op::Store | Op::Swap | Op::FetchAdd) || (ok && matches!(op, Op::Cas)) {
                    cell.store(n, Relaxed);
                }
                (v, ok)
            }
            None => panic!("not under runtime"),
        }
    }
    #[track_caller]
    pub fn ld(&self, i: usize, o: Ordering) -> usize {
        self.acc(i, Op::Load, 0, 0, o, o).0
    }
    #[track_caller]
    pub fn st(&self, i: usize, v: usize, o: Ordering) {
        self.acc(i, Op::Store, v, 0, o, o);
    }
    #[track_caller]
    pub fn swap(&self, i: usize, v: usize, o: Ordering) -> usize {
        self.acc(i, Op::Swap, v, 0, o, o).0
    }
    #[track_caller]
    pub fn fadd(&self, i: usize, v: usize, o: Ordering) -> usize {
        self.acc(i, Op::FetchAdd, v, 0, o, o).0
    }
    #[track_caller]
    pub fn cas(&self, i: usize, e: usize, n: usize, s: Ordering, f: Ordering) -> (usize, bool) {
        self.acc(i, Op::Cas, e, n, s, f)
    }
}

type Body = Arc<dyn Fn(&Mem, &mut Vec<usize>) + Send + Sync>;

fn run(name: &str, nloc: usize, bodies: Vec<Body>, runs: u64, forbidden: &[&[usize]], must_see: &[&[usize]], verbose: bool) -> bool {
    let mut outcomes: BTreeMap<Vec<usize>, usize> = BTreeMap::new();
    for i in 0..runs {
        let mem = Arc::new(Mem((0..nloc).map(|_| Real::new(0)).collect()));
        let nt = bodies.len();
        {
            let mut st = rt::rt().m.lock().unwrap();
            let mut spec = Spec::simple(Mode::M2, 0x1234 + i * 7919, 128, 128);
            spec.spurious = 0;
            st.reset(nt, &spec);
        }
        let res: Arc<Mutex<Vec<Vec<usize>>>> = Arc::new(Mutex::new(vec![Vec::new(); nt]));
        let mut hs = Vec::new();
        for t in 0..nt {
            let (mem, b, res) = (mem.clone(), bodies[t].clone(), res.clone());
            hs.push(std::thread::spawn(move || {
                rt::vthread_enter(t + 1);
                let mut out = Vec::new();
                b(&mem, &mut out);
                res.lock().unwrap()[t] = out;
                rt::vthread_exiting();
            }));
        }
        assert!(rt::run_to_completion(std::time::Duration::from_secs(20)));
        for h in hs {
            h.join().unwrap();
        }
        let flat: Vec<usize> = res.lock().unwrap().iter().flatten().copied().collect();
        *outcomes.entry(flat).or_insert(0) += 1;
    }
    let mut ok = true;
    for f in forbidden {
        if outcomes.contains_key(&f.to_vec()) {
            ok = false;
            println!("  !! forbidden outcome {:?} observed", f);
        }
    }
    for m in must_see {
        if !outcomes.contains_key(&m.to_vec()) {
            ok = false;
            println!("  !! allowed outcome {:?} never observed", m);
        }
    }
    if verbose || !ok {
        let summary: Vec<String> = outcomes.iter().map(|(o, n)| format!("{:?}x{}", o, n)).collect();
        println!("{} {:<34} {}", if ok { "ok  " } else { "FAIL" }, name, summary.join(" "));
    }
    ok
}

fn b(f: impl Fn(&Mem, &mut Vec<usize>) + Send + Sync + 'static) -> Body {
    Arc::new(f)
}

/// returns (shapes run, shapes with the expected verdict)
pub fn main(n: u64, verbose: bool) -> (usize, usize) {
    const X: usize = 0;
    const Y: usize = 1;
    const D: usize = 0;
    const F: usize = 1;
    let mut r = Vec::new();
    r.push(run("SB all SeqCst", 2, vec![b(|m, o| { m.st(X, 1, SeqCst); o.push(m.ld(Y, SeqCst)); }), b(|m, o| { m.st(Y, 1, SeqCst); o.push(m.ld(X, SeqCst)); })], n, &[&[0, 0]], &[&[0, 1], &[1, 0], &[1, 1]], verbose));
    r.push(run("SB sc-stores acq-loads", 2, vec![b(|m, o| { m.st(X, 1, SeqCst); o.push(m.ld(Y, Acquire)); }), b(|m, o| { m.st(Y, 1, SeqCst); o.push(m.ld(X, Acquire)); })], n, &[], &[&[0, 0]], verbose));
    r.push(run("SB rmw; one acq leg (F3 shape)", 2, vec![b(|m, o| { m.swap(X, 1, SeqCst); o.push(m.ld(Y, Acquire)); }), b(|m, o| { m.swap(Y, 1, SeqCst); o.push(m.ld(X, SeqCst)); })], n, &[], &[&[0, 0]], verbose));
    r.push(run("SB rmw; all sc", 2, vec![b(|m, o| { m.swap(X, 1, SeqCst); o.push(m.ld(Y, SeqCst)); }), b(|m, o| { m.swap(Y, 1, SeqCst); o.push(m.ld(X, SeqCst)); })], n, &[&[0, 0]], &[&[1, 1]], verbose));
    r.push(run("Dekker failed-CAS rlx (F2 shape)", 2, vec![b(|m, o| { m.swap(X, 1, SeqCst); o.push(m.ld(Y, SeqCst)); }), b(|m, o| { m.swap(Y, 1, SeqCst); o.push(m.cas(X, 1, 2, Release, Relaxed).0); })], n, &[], &[&[0, 0]], verbose));
    r.push(run("Dekker failed-CAS sc", 2, vec![b(|m, o| { m.swap(X, 1, SeqCst); o.push(m.ld(Y, SeqCst)); }), b(|m, o| { m.swap(Y, 1, SeqCst); o.push(m.cas(X, 1, 2, SeqCst, SeqCst).0); })], n, &[&[0, 0]], &[], verbose));
    r.push(run("MP rel/acq", 2, vec![b(|m, _| { m.st(D, 1, Relaxed); m.st(F, 1, Release); }), b(|m, o| { o.push(m.ld(F, Acquire)); o.push(m.ld(D, Relaxed)); })], n, &[&[1, 0]], &[&[0, 0], &[1, 1]], verbose));
    r.push(run("MP rel/rlx", 2, vec![b(|m, _| { m.st(D, 1, Relaxed); m.st(F, 1, Release); }), b(|m, o| { o.push(m.ld(F, Relaxed)); o.push(m.ld(D, Relaxed)); })], n, &[], &[&[1, 0]], verbose));
    r.push(run("MP rlx + acq fence", 2, vec![b(|m, _| { m.st(D, 1, Relaxed); m.st(F, 1, Release); }), b(|m, o| { o.push(m.ld(F, Relaxed)); h_fence_acq(); o.push(m.ld(D, Relaxed)); })], n, &[&[1, 0]], &[&[1, 1]], verbose));
    r.push(run("MP release-seq via rlx RMW", 2, vec![b(|m, _| { m.st(D, 1, Relaxed); m.st(F, 1, Release); }), b(|m, _| { m.fadd(F, 1, Relaxed); }), b(|m, o| { o.push(m.ld(F, Acquire)); o.push(m.ld(D, Relaxed)); })], n, &[&[2, 0]], &[&[2, 1]], verbose));
    r.push(run("MP rlx store after rel (C++20)", 2, vec![b(|m, _| { m.st(D, 1, Relaxed); m.st(F, 1, Release); m.st(F, 2, Relaxed); }), b(|m, o| { o.push(m.ld(F, Acquire)); o.push(m.ld(D, Relaxed)); })], n, &[&[1, 0]], &[&[2, 0]], verbose));
    r.push(run("CoRR", 1, vec![b(|m, _| { m.st(X, 1, Relaxed); m.st(X, 2, Relaxed); }), b(|m, o| { o.push(m.ld(X, Relaxed)); o.push(m.ld(X, Relaxed)); })], n, &[&[2, 1], &[1, 0], &[2, 0]], &[&[0, 0], &[0, 2], &[1, 2]], verbose));
    r.push(run("WRC rel/acq", 2, vec![b(|m, _| { m.st(X, 1, Release); }), b(|m, o| { o.push(m.ld(X, Acquire)); m.st(Y, 1, Release); }), b(|m, o| { o.push(m.ld(Y, Acquire)); o.push(m.ld(X, Relaxed)); })], n, &[&[1, 1, 0]], &[&[1, 1, 1]], verbose));
    r.push(run("IRIW all SeqCst", 2, vec![b(|m, _| m.st(X, 1, SeqCst)), b(|m, _| m.st(Y, 1, SeqCst)), b(|m, o| { o.push(m.ld(X, SeqCst)); o.push(m.ld(Y, SeqCst)); }), b(|m, o| { o.push(m.ld(Y, SeqCst)); o.push(m.ld(X, SeqCst)); })], 3 * n, &[&[1, 0, 1, 0]], &[&[1, 1, 1, 1]], verbose));
    r.push(run("IRIW acq loads", 2, vec![b(|m, _| m.st(X, 1, SeqCst)), b(|m, _| m.st(Y, 1, SeqCst)), b(|m, o| { o.push(m.ld(X, Acquire)); o.push(m.ld(Y, Acquire)); }), b(|m, o| { o.push(m.ld(Y, Acquire)); o.push(m.ld(X, Acquire)); })], 3 * n, &[], &[&[1, 0, 1, 0]], verbose));
    r.push(run("RWC all SeqCst", 2, vec![b(|m, _| m.st(X, 1, SeqCst)), b(|m, o| { o.push(m.ld(X, SeqCst)); o.push(m.ld(Y, SeqCst)); }), b(|m, o| { m.st(Y, 1, SeqCst); o.push(m.ld(X, SeqCst)); })], 2 * n, &[&[1, 0, 0]], &[], verbose));
    r.push(run("RMW atomicity", 1, vec![b(|m, o| o.push(m.fadd(X, 1, Relaxed))), b(|m, o| o.push(m.fadd(X, 1, Relaxed)))], n, &[&[0, 0], &[1, 1]], &[&[0, 1], &[1, 0]], verbose));
    r.push(run("SC read after hb SC write", 2, vec![b(|m, _| { m.st(X, 1, SeqCst); m.st(F, 1, Release); }), b(|m, o| { o.push(m.ld(F, Acquire)); o.push(m.ld(X, SeqCst)); })], n, &[&[1, 0]], &[], verbose));
    r.push(run("SC eco read-read (rb;rf)", 2, vec![b(|m, _| { m.st(X, 1, Relaxed); }), b(|m, o| { o.push(m.ld(X, SeqCst)); o.push(m.ld(Y, SeqCst)); }), b(|m, o| { m.st(Y, 1, SeqCst); o.push(m.ld(X, SeqCst)); })], 2 * n, &[&[1, 0, 0]], &[], verbose));
    // SeqCst fences mixed with SeqCst accesses ([atomics.order]/4.2-4.4)
    let fsc = |_: &Mem| {
        let _ = h_access(0, 0, Op::Fence, 0, 0, SeqCst, SeqCst, Location::caller());
    };
    r.push(run("SB sc-rmw + (fence; rlx load) vs sc", 2, vec![b(move |m, o| { m.swap(X, 1, SeqCst); fsc(m); o.push(m.ld(Y, Relaxed)); }), b(|m, o| { m.swap(Y, 1, SeqCst); o.push(m.ld(X, SeqCst)); })], n, &[&[0, 0]], &[&[1, 1], &[0, 1], &[1, 0]], verbose));
    r.push(run("SB rlx stores, fences both sides", 2, vec![b(move |m, o| { m.st(X, 1, Relaxed); fsc(m); o.push(m.ld(Y, Relaxed)); }), b(move |m, o| { m.st(Y, 1, Relaxed); fsc(m); o.push(m.ld(X, Relaxed)); })], n, &[&[0, 0]], &[&[1, 1]], verbose));
    r.push(run("SB fence one side only", 2, vec![b(move |m, o| { m.st(X, 1, Relaxed); fsc(m); o.push(m.ld(Y, Relaxed)); }), b(|m, o| { m.st(Y, 1, Relaxed); o.push(m.ld(X, Relaxed)); })], n, &[], &[&[0, 0]], verbose));
    r.push(run("SB sc store + (rlx store; fence; rlx load)", 2, vec![b(move |m, o| { m.st(X, 1, Relaxed); fsc(m); o.push(m.ld(Y, Relaxed)); }), b(|m, o| { m.st(Y, 1, SeqCst); o.push(m.ld(X, SeqCst)); })], n, &[&[0, 0]], &[&[1, 1]], verbose));
    (r.len(), r.iter().filter(|&&x| x).count())
}
