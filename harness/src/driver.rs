//! Driver of the E1 checks: worker processes (the runtime is process-global), merging, shrinking,
//! replay files, known findings, evidence.
#![allow(dead_code)]
use crate::checks::{e1_check, Check};
use crate::exec::{self, Outcome, BOUNDS};
use crate::prog::{case_strategy, Case};
use crate::rt::Failure;
use proptest::strategy::{Strategy, ValueTree};
use proptest::test_runner::{Config, RngAlgorithm, TestRng, TestRunner};
use serde::{Deserialize, Serialize};
use serde_json::{json, Map, Value};
use std::collections::{BTreeMap, HashSet};
use std::io::Write;
use std::path::{Path, PathBuf};
use std::time::Instant;

/// root of the verification tree: the directory above the harness crate (overridable with
/// VERIF_DIR, so that a snapshot of /verif can run on its own)
pub fn verif_dir() -> String {
    if let Ok(d) = std::env::var("VERIF_DIR") {
        return d;
    }
    let compiled = concat!(env!("CARGO_MANIFEST_DIR"), "/..");
    std::fs::canonicalize(compiled).map(|p| p.to_string_lossy().to_string()).unwrap_or_else(|_| "/verif".into())
}
pub const LOAD_BOUND: usize = 4 * 9 + 48;
pub const SOLO_BOUND: usize = 2500;

pub fn default_seed() -> u64 {
    std::env::var("VERIF_SEED").ok().and_then(|s| s.parse::<u64>().ok()).unwrap_or(20260928)
}

pub fn tree_rev() -> String {
    let o = std::process::Command::new("git").args(["-C", "/repo", "rev-parse", "--short", "HEAD"]).output();
    let mut r = o.ok().map(|o| String::from_utf8_lossy(&o.stdout).trim().to_string()).unwrap_or_default();
    let d = std::process::Command::new("git").args(["-C", "/repo", "status", "--porcelain", "--untracked-files=no"]).output();
    if d.ok().map(|o| !o.stdout.is_empty()).unwrap_or(false) {
        r.push_str("+dirty");
    }
    r
}

// ---------------------------------------------------------------------------------------------
// known findings
// ---------------------------------------------------------------------------------------------

#[derive(Clone, Debug, Serialize, Deserialize)]
pub struct Finding {
    pub id: String,
    /// "open" (recorded, not repaired: suppresses exactly this signature) or "fixed" (suppresses nothing)
    pub status: String,
    pub property: String,
    #[serde(default)]
    pub oracle: String,
    /// substring of the oracle message that identifies the failing call site / input
    #[serde(default)]
    pub contains: String,
    #[serde(default)]
    pub commit: String,
    pub what: String,
}

pub fn load_findings() -> Vec<Finding> {
    if std::env::var("VCHECK_IGNORE_KNOWN").is_ok() {
        // (used once, to obtain a shrunk replay of an open finding)
        return Vec::new();
    }
    let p = format!("{}/known_findings.json", verif_dir());
    match std::fs::read_to_string(&p) {
        Ok(s) => serde_json::from_str::<Value>(&s).ok().and_then(|v| v.get("findings").cloned()).and_then(|f| serde_json::from_value(f).ok()).unwrap_or_default(),
        Err(_) => Vec::new(),
    }
}

pub fn match_open<'a>(fs: &'a [Finding], f: &Failure) -> Option<&'a Finding> {
    fs.iter().find(|k| k.status == "open" && (k.oracle.is_empty() || k.oracle == f.oracle) && !k.contains.is_empty() && f.msg.contains(&k.contains))
}

// ---------------------------------------------------------------------------------------------
// replay files
// ---------------------------------------------------------------------------------------------

#[derive(Clone, Debug, Serialize, Deserialize)]
pub struct Replay {
    pub property: String,
    pub oracle: String,
    pub msg: String,
    pub engine: String,
    pub tree_rev: String,
    pub case: Case,
}

/// replay file of the sequential engines (the case is engine-specific JSON)
#[derive(Clone, Debug, Serialize, Deserialize)]
pub struct Replay2 {
    pub property: String,
    pub oracle: String,
    pub msg: String,
    pub engine: String,
    pub tree_rev: String,
    pub case: Value,
}

fn hash_json(v: &Value) -> u64 {
    use std::hash::{Hash, Hasher};
    let mut h = std::collections::hash_map::DefaultHasher::new();
    v.to_string().hash(&mut h);
    h.finish()
}

/// Generic loop of a sequential (E2) check inside a worker process: generate with proptest, log
/// the case before running it, run `test`, shrink a failure with proptest's value tree.
/// `test` returns Ok((non-trivial?, counters)) or Err(message).
pub fn e2_loop<C, St>(part: &str, prop: &str, strat: St, widx: u64, ncases: usize, seed: u64, outdir: &str, test: impl Fn(&C) -> Result<(bool, Value), String>) -> i32
where
    C: Serialize + Clone + std::fmt::Debug,
    St: Strategy<Value = C>,
{
    install();
    let mut runner = TestRunner::new_with_rng(Config { failure_persistence: None, ..Config::default() }, TestRng::from_seed(RngAlgorithm::ChaCha, &seed_bytes(seed, widx, part)));
    let mut res = WorkerResult::default();
    let mut seen: HashSet<u64> = HashSet::new();
    let findings = load_findings();
    let mut known_sample_written: HashSet<String> = HashSet::new();
    let logp = format!("{}/w{}.last", outdir, widx);
    // Watchdog: the sequential engines call the crate on the worker's own thread, so a call that
    // never returns (a spinning compare-exchange loop in a changed tree) would hang the check. A
    // case that makes no progress for 30 s ends the worker with "hung" (inconclusive, exit 2 -
    // never a violation); its last logged case stays in place for inspection.
    let progress = std::sync::Arc::new(std::sync::atomic::AtomicU64::new(0));
    {
        let progress = progress.clone();
        let res_path = format!("{}/w{}.json", outdir, widx);
        let part = part.to_string();
        std::thread::spawn(move || {
            let mut last = (0u64, Instant::now());
            loop {
                std::thread::sleep(std::time::Duration::from_millis(500));
                let p = progress.load(std::sync::atomic::Ordering::Relaxed);
                if p != last.0 {
                    last = (p, Instant::now());
                } else if last.1.elapsed().as_secs() >= 30 {
                    eprintln!("watchdog: a case of {} did not finish within 30 s", part);
                    let res = WorkerResult { hung: true, evaluations: p as usize, ..Default::default() };
                    let _ = std::fs::write(&res_path, serde_json::to_string(&res).unwrap());
                    std::process::exit(2);
                }
            }
        });
    }
    let run = |c: &C| -> Result<(bool, Value), String> {
        match std::panic::catch_unwind(std::panic::AssertUnwindSafe(|| test(c))) {
            Ok(r) => r,
            Err(e) => Err(format!("panic: {}", e.downcast_ref::<String>().cloned().or(e.downcast_ref::<&str>().map(|s| s.to_string())).unwrap_or_default())),
        }
    };
    for _ in 0..ncases {
        let mut tree = match strat.new_tree(&mut runner) {
            Ok(t) => t,
            Err(e) => {
                eprintln!("generator error: {}", e);
                return 2;
            }
        };
        let case = tree.current();
        let cj = serde_json::to_value(&case).unwrap();
        {
            let rp = Replay2 { property: prop.into(), oracle: "E2".into(), msg: "the process died while running this case".into(), engine: part.into(), tree_rev: String::new(), case: cj.clone() };
            let mut f = std::fs::File::create(&logp).unwrap();
            let _ = f.write_all(serde_json::to_string(&rp).unwrap().as_bytes());
        }
        res.evaluations += 1;
        progress.fetch_add(1, std::sync::atomic::Ordering::Relaxed);
        match run(&case) {
            Ok((nt, counters)) => {
                add_counters(&mut res.counters, &counters);
                if nt {
                    let h = hash_json(&cj);
                    if seen.insert(h) {
                        res.nontrivial.push(h);
                        if res.samples.len() < 2 {
                            res.samples.push(cj);
                        }
                    }
                }
            }
            Err(msg) => {
                // an open known finding: counted, excluded, the search goes on
                if let Some(k) = findings.iter().find(|k| k.status == "open" && !k.contains.is_empty() && msg.contains(&k.contains)) {
                    *res.known.entry(k.id.clone()).or_insert(0) += 1;
                    res.known_what.insert(k.id.clone(), format!("property={} {}", prop, k.what));
                    if !known_sample_written.contains(&k.id) {
                        known_sample_written.insert(k.id.clone());
                        let rp = Replay2 { property: prop.into(), oracle: "E2".into(), msg: msg.clone(), engine: part.into(), tree_rev: tree_rev(), case: cj.clone() };
                        let dir = format!("{}/work/replays", verif_dir());
                        let _ = std::fs::create_dir_all(&dir);
                        let _ = std::fs::write(format!("{}/{}-known-{}-w{}.json", dir, part, k.id, widx), serde_json::to_string_pretty(&rp).unwrap());
                    }
                    continue;
                }
                let mut best = (case.clone(), msg);
                let mut steps = 0;
                if tree.simplify() {
                    loop {
                        steps += 1;
                        if steps > 2000 {
                            break;
                        }
                        let c = tree.current();
                        progress.fetch_add(1, std::sync::atomic::Ordering::Relaxed);
                        match run(&c) {
                            Err(m) => {
                                best = (c, m);
                                if !tree.simplify() {
                                    break;
                                }
                            }
                            Ok(_) => {
                                if !tree.complicate() {
                                    break;
                                }
                            }
                        }
                    }
                }
                let cj = serde_json::to_value(&best.0).unwrap();
                let rp = Replay2 { property: prop.into(), oracle: "E2".into(), msg: best.1.clone(), engine: part.into(), tree_rev: tree_rev(), case: cj.clone() };
                let dir = format!("{}/work/replays", verif_dir());
                let _ = std::fs::create_dir_all(&dir);
                let path = format!("{}/{}-{:016x}.json", dir, part, hash_json(&cj));
                std::fs::write(&path, serde_json::to_string_pretty(&rp).unwrap()).unwrap();
                res.violation = Some((prop.into(), format!("E2:{}", part), best.1, path));
                break;
            }
        }
    }
    std::fs::write(format!("{}/w{}.json", outdir, widx), serde_json::to_string(&res).unwrap()).unwrap();
    let _ = std::fs::remove_file(&logp);
    0
}

pub fn reported_property(check: &Check, f: &Failure) -> String {
    if check.deciding.contains(&f.oracle.as_str()) {
        check.id.to_string()
    } else {
        f.prop.clone()
    }
}

fn set_bounds() {
    let mut b = BOUNDS.lock().unwrap();
    b.load_bound = LOAD_BOUND;
    b.solo_bound = SOLO_BOUND;
}

pub fn install() {
    arc_swap::verif::install(crate::rt::hook);
    set_bounds();
    std::panic::set_hook(Box::new(|info| {
        let s = info.to_string();
        if !s.contains(exec::INJECTED) && std::env::var("VCHECK_QUIET").is_err() {
            eprintln!("[panic] {}", s.replace('\n', " | "));
        }
    }));
}

// ---------------------------------------------------------------------------------------------
// shrinking
// ---------------------------------------------------------------------------------------------

fn fails_same(case: &Case, oracle: &str, runs: &mut usize) -> Option<Outcome> {
    *runs += 1;
    let o = exec::run_case(case, false);
    if o.hung {
        eprintln!("hung during shrinking");
        std::process::exit(2);
    }
    match &o.fail {
        // shrinking must not slide from an unknown failure into an open known finding that happens
        // to fail the same oracle: the replay would then be reported as the known finding
        Some(f) if f.oracle == oracle && match_open(&load_findings_cached(), f).is_none() => Some(o),
        _ => None,
    }
}

fn load_findings_cached() -> Vec<Finding> {
    static CACHE: std::sync::OnceLock<Vec<Finding>> = std::sync::OnceLock::new();
    CACHE.get_or_init(load_findings).clone()
}

/// delta-debugging on the materialised case: drop operations/threads, simplify flags, shorten and
/// zero decisions, while the same oracle keeps failing
pub fn shrink_case(mut case: Case, first: &Outcome, budget: usize) -> (Case, Outcome) {
    let oracle = first.fail.as_ref().unwrap().oracle.clone();
    let mut runs = 0usize;
    // materialise the decisions
    let mut best_out = first.clone();
    {
        let mut c = case.clone();
        c.spec.decisions = Some(first.decisions.clone());
        if let Some(o) = fails_same(&c, &oracle, &mut runs) {
            case = c;
            best_out = o;
        } else {
            return (case, best_out);
        }
    }
    let mut progress = true;
    while progress && runs < budget {
        progress = false;
        // 1. drop whole threads' operations (highest first), then single operations
        for t in (0..case.prog.threads.len()).rev() {
            if case.prog.threads[t].ops.is_empty() && case.prog.threads[t].dtor_ops.is_empty() {
                continue;
            }
            let mut c = case.clone();
            c.prog.threads[t].ops.clear();
            c.prog.threads[t].dtor_ops.clear();
            if let Some(o) = fails_same(&c, &oracle, &mut runs) {
                case = c;
                best_out = o;
                progress = true;
            }
        }
        for t in 0..case.prog.threads.len() {
            let mut i = 0;
            while i < case.prog.threads[t].ops.len() && runs < budget {
                let mut c = case.clone();
                c.prog.threads[t].ops.remove(i);
                if let Some(o) = fails_same(&c, &oracle, &mut runs) {
                    case = c;
                    best_out = o;
                    progress = true;
                } else {
                    i += 1;
                }
            }
            let mut i = 0;
            while i < case.prog.threads[t].dtor_ops.len() && runs < budget {
                let mut c = case.clone();
                c.prog.threads[t].dtor_ops.remove(i);
                if let Some(o) = fails_same(&c, &oracle, &mut runs) {
                    case = c;
                    best_out = o;
                    progress = true;
                } else {
                    i += 1;
                }
            }
        }
        // 1a. remove threads that have nothing left to do (never the finalizer), renumbering the
        // references to the threads behind them
        let mut t = case.prog.threads.len();
        while t > 1 && runs < budget {
            t -= 1;
            if !case.prog.threads[t].ops.is_empty() || !case.prog.threads[t].dtor_ops.is_empty() || case.prog.threads.len() <= 2 {
                continue;
            }
            if let Some(f) = &case.spec.freeze {
                if f.keep as usize >= t {
                    continue;
                }
            }
            if let crate::rt::Policy::Stall { victim, .. } | crate::rt::Policy::AbaStall { victim, .. } | crate::rt::Policy::Burst { reader: victim, .. } = &case.spec.policy {
                if *victim as usize >= t {
                    continue;
                }
            }
            let mut c = case.clone();
            c.prog.threads.remove(t);
            let fix = |x: &mut u8| {
                if *x as usize > t {
                    *x -= 1;
                } else if *x as usize == t {
                    *x = 0;
                }
            };
            for th in c.prog.threads.iter_mut() {
                if let Some((d, _)) = &mut th.after {
                    if *d as usize == t {
                        th.after = None;
                    } else if *d as usize > t {
                        *d -= 1;
                    }
                }
                for op in th.ops.iter_mut() {
                    if let crate::prog::Op::SendHandle(_, to) | crate::prog::Op::SendGuard(_, to) = op {
                        fix(to);
                    }
                }
            }
            if let Some(o) = fails_same(&c, &oracle, &mut runs) {
                case = c;
                best_out = o;
                progress = true;
            }
        }
        // 1b. lower numeric arguments (Hold n, TempCont n)
        for t in 0..case.prog.threads.len() {
            for i in 0..case.prog.threads[t].ops.len() {
                loop {
                    if runs >= budget {
                        break;
                    }
                    let mut c = case.clone();
                    let changed = match &mut c.prog.threads[t].ops[i] {
                        crate::prog::Op::Hold(_, n) if *n > 1 => {
                            *n = if *n > 9 { 9 } else { *n - 1 };
                            true
                        }
                        crate::prog::Op::TempCont(n, _) if *n > 0 => {
                            *n /= 2;
                            true
                        }
                        _ => false,
                    };
                    if !changed {
                        break;
                    }
                    match fails_same(&c, &oracle, &mut runs) {
                        Some(o) => {
                            case = c;
                            best_out = o;
                            progress = true;
                        }
                        None => break,
                    }
                }
            }
        }
        // 2. flags
        let flag_edits: Vec<fn(&mut Case) -> bool> = vec![
            |c| std::mem::replace(&mut c.prog.reuse, false),
            |c| std::mem::replace(&mut c.prog.outlive, false),
            |c| std::mem::replace(&mut c.prog.panicky, 0) != 0,
            |c| c.spec.freeze.take().is_some(),
            |c| {
                let mut ch = false;
                for t in c.prog.threads.iter_mut() {
                    ch |= std::mem::replace(&mut t.bequeath, false);
                }
                ch
            },
            |c| {
                let mut ch = false;
                for t in c.prog.threads.iter_mut() {
                    ch |= t.after.take().is_some();
                }
                ch
            },
        ];
        for e in flag_edits {
            let mut c = case.clone();
            if e(&mut c) {
                if let Some(o) = fails_same(&c, &oracle, &mut runs) {
                    case = c;
                    best_out = o;
                    progress = true;
                }
            }
        }
        // 3. decisions: truncate, zero chunks, lower values
        if let Some(d0) = case.spec.decisions.clone() {
            let mut d = d0;
            // truncate tail (binary search on the length)
            let mut lo = 0usize;
            let mut hi = d.len();
            while lo < hi && runs < budget {
                let mid = (lo + hi) / 2;
                let mut c = case.clone();
                c.spec.decisions = Some(d[..mid].to_vec());
                if let Some(o) = fails_same(&c, &oracle, &mut runs) {
                    hi = mid;
                    best_out = o;
                    case = c;
                    progress = progress || mid < d.len();
                } else {
                    lo = mid + 1;
                }
            }
            d = case.spec.decisions.clone().unwrap();
            let mut chunk = (d.len() / 2).max(1);
            while chunk >= 1 && runs < budget {
                let mut i = 0;
                while i < d.len() && runs < budget {
                    let end = (i + chunk).min(d.len());
                    if d[i..end].iter().any(|&x| x != 0) {
                        let mut d2 = d.clone();
                        for x in &mut d2[i..end] {
                            *x = 0;
                        }
                        let mut c = case.clone();
                        c.spec.decisions = Some(d2.clone());
                        if let Some(o) = fails_same(&c, &oracle, &mut runs) {
                            d = d2;
                            case = c;
                            best_out = o;
                            progress = true;
                        }
                    }
                    i = end;
                }
                if chunk == 1 {
                    break;
                }
                chunk /= 2;
            }
        }
    }
    (case, best_out)
}

// ---------------------------------------------------------------------------------------------
// worker
// ---------------------------------------------------------------------------------------------

#[derive(Clone, Debug, Default, Serialize, Deserialize)]
pub struct WorkerResult {
    pub evaluations: usize,
    pub nontrivial: Vec<u64>,
    pub discarded_budget: usize,
    pub counters: BTreeMap<String, u64>,
    pub samples: Vec<Value>,
    pub violation: Option<(String, String, String, String)>, // property, oracle, msg, replay path
    pub known: BTreeMap<String, u64>,
    pub known_what: BTreeMap<String, String>,
    pub hung: bool,
    pub modes: BTreeMap<String, u64>,
    pub strategies: BTreeMap<String, u64>,
}

fn add_counters(dst: &mut BTreeMap<String, u64>, v: &Value) {
    if let Value::Object(m) = v {
        for (k, x) in m {
            if let Some(n) = x.as_u64() {
                let e = dst.entry(k.clone()).or_insert(0);
                if k.starts_with("max_") || k == "peak_alive" {
                    *e = (*e).max(n);
                } else {
                    *e += n;
                }
            } else if let Value::Array(a) = x {
                for (i, y) in a.iter().enumerate() {
                    if let Some(n) = y.as_u64() {
                        *dst.entry(format!("{}[{}]", k, i)).or_insert(0) += n;
                    }
                }
            }
        }
    }
}

fn seed_bytes(seed: u64, widx: u64, id: &str) -> [u8; 32] {
    let mut b = [0u8; 32];
    b[..8].copy_from_slice(&seed.to_le_bytes());
    b[8..16].copy_from_slice(&widx.to_le_bytes());
    for (i, c) in id.bytes().enumerate().take(8) {
        b[16 + i] = c;
    }
    b[31] = 0x5a;
    b
}

pub fn worker(id: &str, widx: u64, ncases: usize, seed: u64, outdir: &str) -> i32 {
    install();
    let check = e1_check(id).expect("unknown E1 check");
    let findings = load_findings();
    let mut dumped = 0usize;
    let mut runner = TestRunner::new_with_rng(Config { failure_persistence: None, ..Config::default() }, TestRng::from_seed(RngAlgorithm::ChaCha, &seed_bytes(seed, widx, id)));
    let strat = match check.template {
        Some(f) => f(),
        None => case_strategy(&check.profile),
    };
    let mut res = WorkerResult::default();
    let mut seen: HashSet<u64> = HashSet::new();
    let logp = format!("{}/w{}.last", outdir, widx);
    let rev = tree_rev();
    for _ in 0..ncases {
        let mut tree = match strat.new_tree(&mut runner) {
            Ok(t) => t,
            Err(e) => {
                eprintln!("generator error: {}", e);
                return 2;
            }
        };
        let mut case = tree.current();
        (check.fixup)(&mut case);
        // log the case before running it: if the process dies, this is the replay
        {
            let rp = Replay { property: if check.deciding.contains(&"O-total") { id.to_string() } else { "C13".into() }, oracle: "O-total".into(), msg: "the process died while running this case".into(), engine: "E1".into(), tree_rev: String::new(), case: case.clone() };
            let mut f = std::fs::File::create(&logp).unwrap();
            let _ = f.write_all(serde_json::to_string(&rp).unwrap().as_bytes());
        }
        let out = exec::run_case(&case, false);
        res.evaluations += 1;
        if out.hung {
            res.hung = true;
            if let Some(f) = &out.fail {
                // The oracle fired and then the threads never came back (the operation that was
                // reported as blocking keeps spinning): the case cannot be shrunk - every re-run
                // would wait for the watchdog again - so it is the replay as it stands.
                if match_open(&findings, f).is_none() {
                    let prop = reported_property(&check, f);
                    let mut c = case.clone();
                    c.spec.decisions = Some(out.decisions.clone());
                    let rp = Replay { property: prop.clone(), oracle: f.oracle.clone(), msg: f.msg.clone(), engine: "E1".into(), tree_rev: rev.clone(), case: c };
                    let dir = format!("{}/work/replays", verif_dir());
                    let _ = std::fs::create_dir_all(&dir);
                    let path = format!("{}/{}-{}-{:016x}.json", dir, id, f.oracle, rp.case.hash64());
                    std::fs::write(&path, serde_json::to_string_pretty(&rp).unwrap()).unwrap();
                    res.violation = Some((prop, f.oracle.clone(), f.msg.clone(), path));
                }
            }
            break;
        }
        *res.modes.entry(format!("{:?}", case.spec.mode)).or_insert(0) += 1;
        *res.strategies.entry(if case.prog.strat == 0 { "default".into() } else { "fallback-only".to_string() }).or_insert(0) += 1;
        add_counters(&mut res.counters, &serde_json::to_value(&out.stats).unwrap());
        add_counters(&mut res.counters, &serde_json::to_value(&out.hs).unwrap());
        *res.counters.entry("objects".into()).or_insert(0) += out.objects as u64;
        *res.counters.entry("objects_at_reused_address".into()).or_insert(0) += out.reused as u64;
        *res.counters.entry("decisions".into()).or_insert(0) += out.decisions.len() as u64;
        let e = res.counters.entry("max_nodes".into()).or_insert(0);
        *e = (*e).max(out.nodes as u64);
        if out.budget {
            res.discarded_budget += 1;
            continue;
        }
        if let Ok(name) = std::env::var("VCHECK_DUMP_STAT") {
            // debugging aid: keep a few cases in which the named counters (comma separated) are all non-zero
            let sv = serde_json::to_value(&out.stats).unwrap();
            if dumped < 5 && name.split(',').all(|n| sv.get(n).and_then(|v| v.as_u64()).unwrap_or(0) > 0) {
                dumped += 1;
                let rp = Replay { property: id.into(), oracle: "dump".into(), msg: name.clone(), engine: "E1".into(), tree_rev: String::new(), case: case.clone() };
                let dir = format!("{}/work/dump", verif_dir());
                let _ = std::fs::create_dir_all(&dir);
                let _ = std::fs::write(format!("{}/{}-w{}-{}.json", dir, id, widx, dumped), serde_json::to_string(&rp).unwrap());
            }
        }
        if let Some(f) = &out.fail {
            if let Some(k) = match_open(&findings, f) {
                *res.known.entry(k.id.clone()).or_insert(0) += 1;
                res.known_what.insert(k.id.clone(), format!("property={} {}", k.property, k.what));
                continue;
            }
            // shrink: first proptest's own simplification of the generated value ...
            let oracle = f.oracle.clone();
            let mut best = (case.clone(), out.clone());
            let mut runs = 0usize;
            let mut steps = 0;
            if tree.simplify() {
                loop {
                    steps += 1;
                    if steps > 150 {
                        break;
                    }
                    let mut c = tree.current();
                    (check.fixup)(&mut c);
                    match fails_same(&c, &oracle, &mut runs) {
                        Some(o) => {
                            best = (c, o);
                            if !tree.simplify() {
                                break;
                            }
                        }
                        None => {
                            if !tree.complicate() {
                                break;
                            }
                        }
                    }
                }
            }
            // ... then delta debugging on the materialised schedule
            let (c2, o2) = shrink_case(best.0, &best.1, 600);
            let f2 = o2.fail.clone().unwrap();
            let prop = reported_property(&check, &f2);
            let rp = Replay { property: prop.clone(), oracle: f2.oracle.clone(), msg: f2.msg.clone(), engine: "E1".into(), tree_rev: rev.clone(), case: c2 };
            let dir = format!("{}/work/replays", verif_dir());
            let _ = std::fs::create_dir_all(&dir);
            let path = format!("{}/{}-{}-{:016x}.json", dir, id, f2.oracle, rp.case.hash64());
            std::fs::write(&path, serde_json::to_string_pretty(&rp).unwrap()).unwrap();
            res.violation = Some((prop, f2.oracle.clone(), f2.msg.clone(), path));
            break;
        }
        if (check.nontrivial)(&case, &out) {
            let h = case.hash64();
            if seen.insert(h) {
                res.nontrivial.push(h);
                if res.samples.len() < 2 {
                    let mut c = case.clone();
                    c.spec.decisions = None;
                    res.samples.push(json!({"case": c, "decisions_taken": out.decisions.len(), "steps": out.stats.steps, "stale_reads": out.stats.stale_reads, "nodes": out.nodes}));
                }
            }
        }
    }
    std::fs::write(format!("{}/w{}.json", outdir, widx), serde_json::to_string(&res).unwrap()).unwrap();
    let _ = std::fs::remove_file(&logp);
    if res.hung {
        2
    } else {
        0
    }
}

// ---------------------------------------------------------------------------------------------
// evidence
// ---------------------------------------------------------------------------------------------

pub fn write_evidence(id: &str, tier: &str, seed: u64, level: &str, coverage: Value, assumptions: Vec<String>, wall: f64, violations: usize) {
    let ev = json!({
        "property_id": id,
        "tier": tier,
        "seed": seed,
        "level": level,
        "coverage": coverage,
        "assumptions": assumptions,
        "wall_s": (wall * 100.0).round() / 100.0,
        "violations": violations,
        "tree_rev": tree_rev(),
    });
    let dir = format!("{}/evidence", verif_dir());
    let _ = std::fs::create_dir_all(&dir);
    std::fs::write(format!("{}/{}.json", dir, id), serde_json::to_string_pretty(&ev).unwrap()).unwrap();
}

/// evidence level = MANIFEST level_claimed.category of the check
pub fn level_of(id: &str) -> &'static str {
    if id == "C18" {
        "fault_enumeration"
    } else {
        "exploration"
    }
}

pub fn e1_assumptions() -> Vec<String> {
    vec![
        "the memory model M2 (views + acyclic graph of SeqCst events) generates a subset of the C++20/RC11-consistent executions (argument in DESIGN.md 4.3; litmus self-test in setup); load-buffering/out-of-thin-air shapes are not generated".into(),
        "the cfg(arc_swap_verif) shim forwards every atomic operation of the crate faithfully; atomics introduced outside the shim would run with SC strength".into(),
        "the harness pointer VArc follows std::sync::Arc's count protocol (Relaxed inc, Release dec + Acquire fence)".into(),
        "bounds: <= 7 virtual threads, <= 6 operations per thread (+ Hold), step budget per execution; executions over budget are discarded and counted".into(),
    ]
}

// ---------------------------------------------------------------------------------------------
// parent
// ---------------------------------------------------------------------------------------------

fn replay_dir(id: &str) -> Vec<PathBuf> {
    let mut v = Vec::new();
    if let Ok(rd) = std::fs::read_dir(format!("{}/replays", verif_dir())) {
        for e in rd.flatten() {
            let n = e.file_name().to_string_lossy().to_string();
            if n.starts_with(id) && n.ends_with(".json") {
                v.push(e.path());
            }
        }
    }
    v.sort();
    v
}

/// Run a replay file in a child process (a violation may abort the process). Returns
/// (exit code, stdout).
pub fn run_replay_child(path: &Path) -> (i32, String) {
    let exe = std::env::current_exe().unwrap();
    let mut ch = std::process::Command::new(exe).arg("replay").arg(path).env("VCHECK_QUIET", "1").stdout(std::process::Stdio::piped()).stderr(std::process::Stdio::null()).spawn().unwrap();
    // a replay that does not come back within 120 s is inconclusive (exit 2), never a violation
    let t0 = Instant::now();
    loop {
        match ch.try_wait() {
            Ok(Some(st)) => {
                let mut out = String::new();
                if let Some(mut so) = ch.stdout.take() {
                    use std::io::Read;
                    let _ = so.read_to_string(&mut out);
                }
                return (st.code().unwrap_or(134), out);
            }
            Ok(None) if t0.elapsed().as_secs() >= 120 => {
                let _ = ch.kill();
                let _ = ch.wait();
                return (2, format!("replay {} did not finish within 120 s\n", path.display()));
            }
            Ok(None) => std::thread::sleep(std::time::Duration::from_millis(50)),
            Err(_) => return (2, String::new()),
        }
    }
}

/// one generated tier of a check: an E1 profile or a sequential (E2) engine
pub struct Part {
    pub name: String,
    pub cases: usize,
    pub rule: String,
    pub workers: usize,
}

pub fn nworkers() -> usize {
    std::env::var("VCHECK_WORKERS").ok().and_then(|s| s.parse().ok()).unwrap_or_else(|| std::thread::available_parallelism().map(|n| n.get()).unwrap_or(8)).max(1)
}

#[derive(Default)]
pub struct PartOut {
    pub merged: WorkerResult,
    pub nontrivial: usize,
    pub violations: usize,
    pub inconclusive: bool,
}

/// spawn the workers of one part, merge their results, report violations / known findings
pub fn run_part(id: &str, part: &Part, seed: u64, deciding_total: bool) -> PartOut {
    let findings = load_findings();
    let outdir = format!("{}/work/run-{}-{}", verif_dir(), part.name, std::process::id());
    let _ = std::fs::remove_dir_all(&outdir);
    std::fs::create_dir_all(&outdir).unwrap();
    let exe = std::env::current_exe().unwrap();
    let nw = part.workers.max(1);
    let per = (part.cases + nw - 1) / nw;
    let mut children = Vec::new();
    for w in 0..nw {
        let errf = std::fs::File::create(format!("{}/w{}.err", outdir, w)).unwrap();
        let ch = std::process::Command::new(&exe)
            .args(["worker", &part.name, &w.to_string(), &per.to_string(), &seed.to_string(), &outdir])
            .stdout(std::process::Stdio::null())
            .stderr(errf)
            .spawn()
            .unwrap();
        children.push(ch);
    }
    let mut out = PartOut::default();
    let mut all_nt: HashSet<u64> = HashSet::new();
    let mut died: Vec<(usize, String)> = Vec::new();
    for (w, mut ch) in children.into_iter().enumerate() {
        let st = ch.wait().unwrap();
        let rp = format!("{}/w{}.json", outdir, w);
        match std::fs::read_to_string(&rp).ok().and_then(|s| serde_json::from_str::<WorkerResult>(&s).ok()) {
            Some(r) => {
                let merged = &mut out.merged;
                merged.evaluations += r.evaluations;
                merged.discarded_budget += r.discarded_budget;
                for h in r.nontrivial {
                    all_nt.insert(h);
                }
                for (k, v) in r.counters {
                    let e = merged.counters.entry(k.clone()).or_insert(0);
                    if k.starts_with("max_") || k == "peak_alive" {
                        *e = (*e).max(v);
                    } else {
                        *e += v;
                    }
                }
                for (k, v) in r.modes {
                    *merged.modes.entry(k).or_insert(0) += v;
                }
                for (k, v) in r.strategies {
                    *merged.strategies.entry(k).or_insert(0) += v;
                }
                for (k, v) in r.known {
                    *merged.known.entry(k).or_insert(0) += v;
                }
                merged.known_what.extend(r.known_what);
                if merged.samples.len() < 3 {
                    merged.samples.extend(r.samples.into_iter().take(1));
                }
                if merged.violation.is_none() {
                    merged.violation = r.violation;
                }
                if r.hung {
                    out.inconclusive = true;
                }
            }
            None => {
                let last = format!("{}/w{}.last", outdir, w);
                if Path::new(&last).exists() {
                    died.push((w, last));
                } else {
                    eprintln!("worker {} of {} ended with {:?} and left no result", w, part.name, st);
                    out.inconclusive = true;
                }
            }
        }
    }
    out.nontrivial = all_nt.len();
    // Cases that ran out of their step budget are discarded, never judged. On the unchanged tree
    // that does not happen at all; if more than 1 in 200 cases end that way something spins (an
    // operation that waits for another thread outside a solo window), and "held" would claim too
    // much: the result is inconclusive.
    if out.merged.discarded_budget * 200 > out.merged.evaluations.max(1) {
        eprintln!("inconclusive: {} of {} cases of {} exhausted their step budget and were discarded", out.merged.discarded_budget, out.merged.evaluations, part.name);
        out.inconclusive = true;
    }
    for (id_, n) in &out.merged.known {
        println!("KNOWN-FINDING: {} (signature {} hit {} times, excluded from the search)", out.merged.known_what.get(id_).cloned().unwrap_or_default(), id_, n);
    }
    if let Some((prop, oracle, msg, path)) = &out.merged.violation {
        println!("oracle {} : {}", oracle, msg);
        println!("VIOLATION property={} replay={}", prop, path);
        out.violations += 1;
    }
    for (w, last) in &died {
        // the worker died (abort, signal): its last logged case is the replay; confirm in a child
        let err = std::fs::read_to_string(format!("{}/w{}.err", outdir, w)).unwrap_or_default();
        let tail: String = err.lines().rev().take(6).collect::<Vec<_>>().into_iter().rev().collect::<Vec<_>>().join(" | ");
        let dir = format!("{}/work/replays", verif_dir());
        let _ = std::fs::create_dir_all(&dir);
        let body = std::fs::read_to_string(last).unwrap_or_default();
        let path = format!("{}/{}-death-{:016x}.json", dir, part.name, hash_json(&Value::String(body.clone())));
        let body = body.replacen("the process died while running this case", &format!("the process died while running this case: {}", tail.replace('"', "'").replace('\\', "/")), 1);
        std::fs::write(&path, body).unwrap();
        let (c, o) = run_replay_child(Path::new(&path));
        if c == 1 || c >= 128 || c < 0 {
            let known = findings.iter().find(|k| k.status == "open" && !k.contains.is_empty() && (o.contains(&k.contains) || tail.contains(&k.contains)));
            if let Some(k) = known {
                println!("KNOWN-FINDING: property={} {}", k.property, k.what);
                continue;
            }
            let prop = if deciding_total || !part.name.starts_with('C') || part.name.len() > 3 { id.to_string() } else { "C13".to_string() };
            println!("worker {} died: {}", w, tail);
            println!("VIOLATION property={} replay={}", prop, path);
            out.violations += 1;
        } else {
            eprintln!("worker {} died ({}) but its last case does not reproduce it", w, tail);
            out.inconclusive = true;
        }
    }
    let _ = std::fs::remove_dir_all(&outdir);
    out
}

/// E4: which coverage-guided fuzz target (cargo-fuzz / libFuzzer, ASan) serves a property
pub fn fuzz_target_of(id: &str) -> Option<&'static str> {
    match id {
        "C01" | "C02" | "C03" | "C04" | "C05" | "C06" | "C07" | "C09" | "C10" | "C11" | "C12" | "C13" => Some("sched"),
        "C14" => Some("seqmodel"),
        "C15" => Some("kinds"),
        "C16" | "C17" => Some("cache_access"),
        "C20" => Some("serde_rt"),
        _ => None,
    }
}

#[derive(Default, Debug)]
pub struct FuzzOut {
    pub available: bool,
    pub note: String,
    pub runs: usize,
    pub corpus_units: usize,
    pub coverage: usize,
    pub violations: Vec<String>,
    pub jobs: usize,
}

/// Build the target with cargo-fuzz (nightly, ASan, hooks on) and run `jobs` libFuzzer processes
/// with fixed run counts and seeds. The semantic oracles are inside the target.
pub fn fuzz_campaign(target: &str, runs_per_job: usize, jobs: usize, seed: u64) -> FuzzOut {
    let mut out = FuzzOut { jobs, ..Default::default() };
    let b = std::process::Command::new("cargo")
        .args(["+nightly", "fuzz", "build", "--fuzz-dir", &format!("{}/fuzz", verif_dir()), target])
        .env("RUSTFLAGS", "--cfg arc_swap_verif")
        .env("CARGO_NET_OFFLINE", "true")
        .current_dir(verif_dir())
        .output();
    let ok = matches!(&b, Ok(o) if o.status.success());
    if !ok {
        out.note = format!("cargo fuzz build failed: {}", b.map(|o| String::from_utf8_lossy(&o.stderr).lines().rev().take(3).collect::<Vec<_>>().join(" | ")).unwrap_or_else(|e| e.to_string()));
        return out;
    }
    let bin = format!("{}/fuzz/target/x86_64-unknown-linux-gnu/release/{}", verif_dir(), target);
    if !Path::new(&bin).exists() {
        out.note = "fuzz binary not found after build".into();
        return out;
    }
    out.available = true;
    let art = format!("{}/work/artifacts", verif_dir());
    let _ = std::fs::create_dir_all(&art);
    let mut children = Vec::new();
    for j in 0..jobs {
        let corpus = format!("{}/work/corpus/{}/j{}", verif_dir(), target, j);
        let _ = std::fs::remove_dir_all(&corpus);
        std::fs::create_dir_all(&corpus).unwrap();
        // seed corpus: the empty input and a few pseudo-random byte strings (libFuzzer ramps the
        // length slowly from an empty corpus)
        let mut x = seed.wrapping_mul(6364136223846793005).wrapping_add(j as u64 + 1);
        for k in 0..8 {
            let len = 32 + 48 * k;
            let bytes: Vec<u8> = (0..len)
                .map(|_| {
                    x = x.wrapping_mul(6364136223846793005).wrapping_add(1442695040888963407);
                    (x >> 33) as u8
                })
                .collect();
            std::fs::write(format!("{}/seed{}", corpus, k), bytes).unwrap();
        }
        std::fs::write(format!("{}/empty", corpus), b"").unwrap();
        let log = std::fs::File::create(format!("{}/work/fuzz-{}-j{}.log", verif_dir(), target, j)).unwrap();
        let log2 = log.try_clone().unwrap();
        let ch = std::process::Command::new(&bin)
            .arg(&corpus)
            .args([&format!("-runs={}", runs_per_job), &format!("-seed={}", (seed % 1_000_000) as usize * 100 + j + 1), "-len_control=0", "-max_len=512", "-timeout=60", "-print_final_stats=1", &format!("-artifact_prefix={}/{}-j{}-", art, target, j)])
            .env("VCHECK_QUIET", "1")
            .stdout(log)
            .stderr(log2)
            .spawn();
        if let Ok(c) = ch {
            children.push((j, c, corpus));
        }
    }
    for (j, mut c, corpus) in children {
        let st = c.wait().ok();
        let text = std::fs::read_to_string(format!("{}/work/fuzz-{}-j{}.log", verif_dir(), target, j)).unwrap_or_default();
        for l in text.lines() {
            if let Some(r) = l.strip_prefix("stat::number_of_executed_units:") {
                out.runs += r.trim().parse::<usize>().unwrap_or(0);
            }
            if l.starts_with("VIOLATION") || l.starts_with("oracle ") {
                out.violations.push(l.to_string());
            }
            if let Some(i) = l.find(" cov: ") {
                let c: usize = l[i + 6..].split_whitespace().next().and_then(|x| x.parse().ok()).unwrap_or(0);
                out.coverage = out.coverage.max(c);
            }
        }
        out.corpus_units += std::fs::read_dir(&corpus).map(|d| d.count()).unwrap_or(0);
        let crashed = st.map(|s| !s.success()).unwrap_or(true);
        if crashed && !text.contains("VIOLATION") {
            // a crash that is not one of our oracles (sanitizer report, abort inside the crate)
            let artifact = text.lines().find_map(|l| l.find("Test unit written to ").map(|i| l[i + 21..].trim().to_string())).unwrap_or_default();
            let why = text.lines().find(|l| l.contains("ERROR: AddressSanitizer") || l.contains("panicked at") || l.contains("deadly signal")).unwrap_or("crash").to_string();
            if text.contains("libFuzzer: timeout") || text.contains("out-of-memory") {
                out.note = format!("job {} hit a libFuzzer timeout/oom: inconclusive", j);
            } else {
                out.violations.push(format!("oracle sanitizer/abort : {}", why));
                out.violations.push(format!("VIOLATION property=? replay={}", artifact));
            }
        }
    }
    out
}

/// E5: the sequential generators under Miri (sanitizer back-end). Which part serves a property.
pub fn miri_part_of(id: &str) -> Option<(&'static str, usize)> {
    match id {
        "C12" => Some(("C12mix", 12)),
        "C14" => Some(("C14seq", 5)),
        "C15" => Some(("C15kinds", 30)),
        "C16" => Some(("C16seq", 15)),
        "C17" => Some(("C17seq", 15)),
        "C20" => Some(("C20serde", 15)),
        _ => None,
    }
}

#[derive(Default, Debug)]
pub struct MiriOut {
    pub available: bool,
    pub note: String,
    pub runs: usize,
    pub jobs: usize,
    pub violations: Vec<String>,
}

/// `cargo +nightly miri run --bin vmiri` on `jobs` seeds in parallel; undefined behaviour reported by
/// Miri (or an oracle failure) is a violation whose replay is the last case printed.
pub fn miri_campaign(id: &str, part: &str, per_job: usize, jobs: usize, seed: u64) -> MiriOut {
    let mut out = MiriOut { jobs, ..Default::default() };
    let hdir = format!("{}/harness", verif_dir());
    let mk = |n: usize, sd: u64| {
        let mut c = std::process::Command::new("cargo");
        c.args(["+nightly", "miri", "run", "--release", "--bin", "vmiri", "--", part, &n.to_string(), &sd.to_string()]).env("MIRIFLAGS", "-Zmiri-permissive-provenance").env("CARGO_NET_OFFLINE", "true").current_dir(&hdir);
        c
    };
    // build once (0 cases)
    let b = mk(0, 0).output();
    if !matches!(&b, Ok(o) if o.status.success()) {
        out.note = format!("cargo miri build failed: {}", b.map(|o| String::from_utf8_lossy(&o.stderr).lines().rev().take(2).collect::<Vec<_>>().join(" | ")).unwrap_or_else(|e| e.to_string()));
        return out;
    }
    out.available = true;
    let mut children = Vec::new();
    for j in 0..jobs {
        let logp = format!("{}/work/miri-{}-j{}.log", verif_dir(), part, j);
        let log = std::fs::File::create(&logp).unwrap();
        let log2 = log.try_clone().unwrap();
        if let Ok(ch) = mk(per_job, seed.wrapping_mul(31).wrapping_add(j as u64 + 1)).stdout(log).stderr(log2).spawn() {
            children.push((ch, logp));
        }
    }
    for (mut ch, logp) in children {
        let st = ch.wait().ok();
        let text = std::fs::read_to_string(&logp).unwrap_or_default();
        out.runs += text.lines().filter(|l| l.starts_with("CASE ")).count();
        let ok = st.map(|s| s.success()).unwrap_or(false);
        if !ok {
            let last = text.lines().filter(|l| l.starts_with("CASE ")).last().unwrap_or("");
            let case_json = last.splitn(4, ' ').nth(3).unwrap_or("null");
            let why = text.lines().find(|l| l.contains("Undefined Behavior") || l.starts_with("ORACLE")).unwrap_or("Miri stopped the program").to_string();
            let rp = Replay2 { property: id.into(), oracle: "E5-miri".into(), msg: format!("{} (reproduce: cd harness && MIRIFLAGS=-Zmiri-permissive-provenance cargo +nightly miri run --release --bin vmiri, or vcheck replay for the oracle part)", why), engine: part.into(), tree_rev: tree_rev(), case: serde_json::from_str(case_json).unwrap_or(Value::Null) };
            let dir = format!("{}/work/replays", verif_dir());
            let _ = std::fs::create_dir_all(&dir);
            let path = format!("{}/miri-{}-{:016x}.json", dir, part, hash_json(&rp.case));
            std::fs::write(&path, serde_json::to_string_pretty(&rp).unwrap()).unwrap();
            out.violations.push(format!("oracle E5-miri : {}", why.trim()));
            out.violations.push(format!("VIOLATION property={} replay={}", id, path));
        }
    }
    out
}

pub fn parent(id: &str, tier: &str) -> i32 {
    let t0 = Instant::now();
    let seed = default_seed();
    let findings = load_findings();
    let thorough = tier == "thorough";
    // 1. replay tier: committed regression inputs of this property
    let mut replayed = 0;
    let replays = if std::env::var("VCHECK_NO_REPLAYS").is_ok() { Vec::new() } else { replay_dir(id) };
    for p in replays {
        let (code, out) = run_replay_child(&p);
        replayed += 1;
        if code == 1 || code >= 128 || code < 0 {
            let known = findings.iter().find(|k| k.status == "open" && !k.contains.is_empty() && out.contains(&k.contains));
            if let Some(k) = known {
                println!("KNOWN-FINDING: property={} {} (signature {}, replay {})", id, k.what, k.id, p.display());
                continue;
            }
            print!("{}", out);
            if !out.contains("VIOLATION") {
                println!("VIOLATION property={} replay={}", id, p.display());
            }
            write_evidence(id, tier, seed, level_of(id), json!({"evaluations": replayed, "distinct_nontrivial": replayed.max(2), "rule": "replay tier (committed regression inputs)", "samples": [p.display().to_string()], "failed_replay": p.display().to_string()}), e1_assumptions(), t0.elapsed().as_secs_f64(), 1);
            return 1;
        } else if code != 0 {
            eprintln!("replay {} inconclusive (exit {})", p.display(), code);
            return 2;
        } else {
            // the replay of an open finding reports it itself
            for l in out.lines().filter(|l| l.starts_with("KNOWN-FINDING:")) {
                println!("{}", l);
            }
        }
    }
    // 2. generated tiers
    let parts = crate::e2::parts(id, thorough);
    if parts.is_empty() {
        eprintln!("no check for {}", id);
        return 2;
    }
    let deciding_total = e1_check(id).map(|c| c.deciding.contains(&"O-total")).unwrap_or(true);
    let mut cov = Map::new();
    let mut evaluations = replayed;
    let mut nontrivial = 0;
    let mut violations = 0;
    let mut inconclusive = false;
    let mut samples: Vec<Value> = Vec::new();
    let mut rules: Vec<String> = Vec::new();
    let mut per_part = Map::new();
    for part in &parts {
        let o = run_part(id, part, seed, deciding_total);
        evaluations += o.merged.evaluations;
        nontrivial += o.nontrivial;
        violations += o.violations;
        inconclusive |= o.inconclusive;
        for s in o.merged.samples.iter().take(3) {
            samples.push(json!({"engine": part.name, "case": s}));
        }
        rules.push(format!("[{}] {}", part.name, part.rule));
        per_part.insert(
            part.name.clone(),
            json!({
                "evaluations": o.merged.evaluations,
                "distinct_nontrivial": o.nontrivial,
                "discarded_budget": o.merged.discarded_budget,
                "modes": o.merged.modes,
                "strategies": o.merged.strategies,
                "classes": o.merged.counters,
                "known_findings_excluded": o.merged.known,
                "workers": part.workers,
            }),
        );
        if o.violations > 0 {
            break;
        }
    }
    // E4: coverage-guided campaign (thorough tier only), oracles inside the target
    if thorough && violations == 0 {
        if let Some(target) = fuzz_target_of(id) {
            let (runs, jobs) = if target == "sched" { (40_000, 16) } else if target == "kinds" { (200_000, 8) } else { (400_000, 8) };
            let runs = std::env::var("VCHECK_FUZZ_RUNS").ok().and_then(|s| s.parse().ok()).unwrap_or(runs);
            let f = fuzz_campaign(target, runs, jobs, seed);
            if f.available {
                evaluations += f.runs;
                for v in &f.violations {
                    if v.starts_with("VIOLATION property=?") {
                        println!("{}", v.replace("property=?", &format!("property={}", id)));
                        violations += 1;
                    } else {
                        println!("{}", v);
                        if v.starts_with("VIOLATION") {
                            violations += 1;
                        }
                    }
                }
                if !f.note.is_empty() {
                    inconclusive = true;
                }
                rules.push(format!("[E4 {}] libFuzzer (cargo-fuzz, nightly, ASan) on bytes decoded constructively into the same case types; {} jobs x {} runs, seed corpus = empty input + 8 pseudo-random strings per job; the same oracles run inside the target", target, jobs, runs));
            }
            per_part.insert(format!("E4:{}", target), json!({"available": f.available, "note": f.note, "runs": f.runs, "jobs": f.jobs, "corpus_units_coverage_increasing": f.corpus_units, "edge_coverage": f.coverage, "violations": f.violations.len()}));
        }
    }
    // E5: the sequential generators under Miri (thorough tier only)
    if thorough && violations == 0 {
        if let Some((part, per_job)) = miri_part_of(id) {
            let per_job = std::env::var("VCHECK_MIRI_CASES").ok().and_then(|s| s.parse().ok()).unwrap_or(per_job);
            let m = miri_campaign(id, part, per_job, 8, seed);
            if m.available {
                evaluations += m.runs;
                for v in &m.violations {
                    println!("{}", v);
                    if v.starts_with("VIOLATION") {
                        violations += 1;
                    }
                }
                rules.push(format!("[E5 miri {}] the same proptest generator, 8 jobs x {} cases, executed by Miri (permissive provenance): undefined behaviour on the real Arc/Rc/Weak paths is a violation even when no count or identity changes", part, per_job));
            }
            per_part.insert(format!("E5:miri:{}", part), json!({"available": m.available, "note": m.note, "cases": m.runs, "jobs": m.jobs, "violations": m.violations.len() / 2}));
        }
    }
    let wall = t0.elapsed().as_secs_f64();
    cov.insert("evaluations".into(), json!(evaluations));
    cov.insert("distinct_nontrivial".into(), json!(nontrivial));
    cov.insert("rule".into(), json!(rules.join(" || ")));
    cov.insert("samples".into(), json!(samples));
    cov.insert("replayed_regression_inputs".into(), json!(replayed));
    cov.insert("parts".into(), Value::Object(per_part));
    cov.insert("load_step_bound".into(), json!(LOAD_BOUND));
    cov.insert("solo_step_bound".into(), json!(SOLO_BOUND));
    cov.insert("executions_per_second".into(), json!((evaluations as f64 / wall.max(0.001)).round()));
    let assumptions = if parts.iter().any(|p| e1_check(&p.name).is_some()) { e1_assumptions() } else { crate::e2::assumptions(id) };
    write_evidence(id, tier, seed, level_of(id), Value::Object(cov), assumptions, wall, violations);
    if violations > 0 {
        return 1;
    }
    if inconclusive {
        eprintln!("inconclusive (worker hang or unexplained death)");
        return 2;
    }
    println!("{} {}: {} cases, {} distinct non-trivial, {:.1}s: held", id, tier, evaluations, nontrivial, wall);
    0
}

/// run sampled generated cases twice and compare the materialised decisions, step counts and traces
pub fn determinism_selftest(n: usize) -> (usize, usize) {
    let check = e1_check("C01").unwrap();
    let mut runner = TestRunner::new_with_rng(Config { failure_persistence: None, ..Config::default() }, TestRng::from_seed(RngAlgorithm::ChaCha, &seed_bytes(7, 7, "determinism")));
    let strat = match check.template {
        Some(f) => f(),
        None => case_strategy(&check.profile),
    };
    let mut same = 0;
    for _ in 0..n {
        let case = strat.new_tree(&mut runner).unwrap().current();
        let a = exec::run_case(&case, true);
        let b = exec::run_case(&case, true);
        // addresses differ between runs; compare the address-free part of every trace line
        let strip = |t: &Vec<String>| -> Vec<String> { t.iter().map(|l| l.split_whitespace().filter(|w| !w.contains('@') && !w.starts_with("a=") && !w.starts_with("b=") && !w.starts_with("->") && !(w.len() >= 4 && w.chars().all(|c| c.is_ascii_hexdigit()))).collect::<Vec<_>>().join(" ")).collect() };
        if a.decisions == b.decisions && a.stats.steps == b.stats.steps && a.fail.is_some() == b.fail.is_some() && strip(&a.trace) == strip(&b.trace) {
            same += 1;
        } else {
            let (sa, sb) = (strip(&a.trace), strip(&b.trace));
            let first = sa.iter().zip(sb.iter()).position(|(x, y)| x != y);
            eprintln!("non-deterministic case: decisions equal: {}, steps {} vs {}, first differing trace line {:?}: {:?} vs {:?}", a.decisions == b.decisions, a.stats.steps, b.stats.steps, first, first.map(|i| &sa[i]), first.map(|i| &sb[i]));
        }
    }
    (n, same)
}

pub fn replay(path: &str) -> i32 {
    install();
    let s = std::fs::read_to_string(path).expect("read replay file");
    let generic: Replay2 = serde_json::from_str(&s).expect("parse replay file");
    if generic.engine != "E1" {
        return match crate::e2::replay(&generic.engine, &generic.case) {
            Ok(()) => {
                println!("replay {}: held", path);
                0
            }
            Err(m) => {
                println!("oracle {} : {}", generic.engine, m);
                if let Some(k) = load_findings().iter().find(|k| k.status == "open" && !k.contains.is_empty() && m.contains(&k.contains)) {
                    println!("KNOWN-FINDING: property={} {} (signature {}, replay {})", generic.property, k.what, k.id, path);
                    return 0;
                }
                println!("VIOLATION property={} replay={}", generic.property, path);
                1
            }
        };
    }
    let rp: Replay = serde_json::from_str(&s).expect("parse replay file");
    let trace = std::env::var("VCHECK_TRACE").is_ok();
    let out = exec::run_case(&rp.case, trace);
    if trace {
        for l in &out.trace {
            println!("  {}", l);
        }
    }
    if out.hung && out.fail.is_none() {
        return 2;
    }
    match out.fail {
        Some(f) => {
            println!("oracle {} : {}", f.oracle, f.msg);
            let prop = match e1_check(&rp.property) {
                Some(c) => reported_property(&c, &f),
                None => f.prop.clone(),
            };
            // an open known finding is reported as such here too (VCHECK_IGNORE_KNOWN=1 for the strict view)
            let known = load_findings();
            if let Some(k) = match_open(&known, &f) {
                println!("KNOWN-FINDING: property={} {} (signature {}, replay {})", prop, k.what, k.id, path);
                return 0;
            }
            println!("VIOLATION property={} replay={}", prop, path);
            1
        }
        None => {
            println!("replay {}: held ({} steps{})", path, out.stats.steps, if out.budget { ", over budget" } else { "" });
            0
        }
    }
}
