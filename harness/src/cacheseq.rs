//! E2 / C16 (sequential part): Cache / MapCache on the real `Arc` against a model: every load
//! returns exactly the current value, each cache holds exactly one reference (to what it last
//! returned), the superseded value is released by the observing load, a mapped cache projects
//! exactly that value.
#![allow(dead_code)]
use arc_swap::cache::{Access as CacheAccess, Cache, MapCache};
use arc_swap::ArcSwapOption;
use proptest::prelude::*;
use serde::{Deserialize, Serialize};
use std::sync::{Arc, Weak};

pub struct Rec {
    pub id: usize,
    pub name: String,
}

static EMPTY: String = String::new();
fn proj(v: &Option<Arc<Rec>>) -> &String {
    match v {
        Some(r) => &r.name,
        None => &EMPTY,
    }
}
type T = Option<Arc<Rec>>;
type C = Cache<Arc<ArcSwapOption<Rec>>, T>;
type MC = MapCache<Arc<ArcSwapOption<Rec>>, T, fn(&T) -> &String>;

#[derive(Clone, Debug, PartialEq, Eq, Serialize, Deserialize)]
pub enum COp {
    /// store pool value i (5 = None)
    Store(u8),
    /// store a fresh value
    StoreFresh,
    /// store the value that is already stored
    StoreSame,
    NewCache,
    NewMapCache,
    CloneCache(u8),
    Load(u8),
    MapLoad(u8),
    DropCache(u8),
}

#[derive(Clone, Debug, PartialEq, Eq, Serialize, Deserialize)]
pub struct CCase {
    pub ops: Vec<COp>,
}

pub fn case_strategy() -> impl Strategy<Value = CCase> {
    let op = prop_oneof![
        6 => (0u8..6).prop_map(COp::Store),
        2 => Just(COp::StoreFresh),
        2 => Just(COp::StoreSame),
        2 => Just(COp::NewCache),
        2 => Just(COp::NewMapCache),
        2 => any::<u8>().prop_map(COp::CloneCache),
        8 => any::<u8>().prop_map(COp::Load),
        4 => any::<u8>().prop_map(COp::MapLoad),
        1 => any::<u8>().prop_map(COp::DropCache),
    ];
    proptest::collection::vec(op, 1..50).prop_map(|ops| CCase { ops })
}

fn sel(i: u8, len: usize) -> usize {
    (i as usize * len) >> 8
}

#[derive(Default, Clone, Debug, Serialize, Deserialize)]
pub struct CStats {
    pub changes_observed: usize,
    pub loads: usize,
    pub aba: usize,
    pub nulls: usize,
    pub max_caches: usize,
}

pub fn run_case(c: &CCase) -> Result<CStats, String> {
    let mut st = CStats::default();
    let pool: Vec<Arc<Rec>> = (0..5).map(|i| Arc::new(Rec { id: i, name: format!("name-{}", i) })).collect();
    let mut fresh: Vec<(usize, Weak<Rec>)> = Vec::new();
    let mut next = 100;
    let cont: Arc<ArcSwapOption<Rec>> = Arc::new(ArcSwapOption::new(Some(pool[0].clone())));
    let mut cur: Option<usize> = Some(0);
    let mut history: Vec<Option<usize>> = vec![cur];
    let mut caches: Vec<(C, Option<usize>)> = Vec::new();
    let mut mcaches: Vec<(MC, Option<usize>)> = Vec::new();
    let ident = |v: &T| v.as_ref().map(|r| r.id);
    for (n, op) in c.ops.iter().enumerate() {
        match op {
            COp::Store(i) => {
                let v: T = if *i >= 5 { None } else { Some(pool[*i as usize].clone()) };
                if v.is_none() {
                    st.nulls += 1;
                }
                cur = ident(&v);
                if history.len() >= 2 && history[history.len() - 2] == cur && history[history.len() - 1] != cur {
                    st.aba += 1;
                }
                history.push(cur);
                cont.store(v);
            }
            COp::StoreFresh => {
                let a = Arc::new(Rec { id: next, name: format!("fresh-{}", next) });
                fresh.push((next, Arc::downgrade(&a)));
                cur = Some(next);
                next += 1;
                history.push(cur);
                cont.store(Some(a));
            }
            COp::StoreSame => {
                let v = cont.load_full();
                cont.store(v);
            }
            COp::NewCache => {
                if caches.len() < 4 {
                    caches.push((Cache::new(Arc::clone(&cont)), cur));
                }
            }
            COp::NewMapCache => {
                if mcaches.len() < 3 {
                    mcaches.push((Cache::new(Arc::clone(&cont)).map(proj as fn(&T) -> &String), cur));
                }
            }
            COp::CloneCache(i) => {
                if !caches.is_empty() && caches.len() < 4 {
                    let k = sel(*i, caches.len());
                    let cl = (caches[k].0.clone(), caches[k].1);
                    caches.push(cl);
                }
            }
            COp::Load(i) => {
                if !caches.is_empty() {
                    let k = sel(*i, caches.len());
                    let got = ident(caches[k].0.load());
                    st.loads += 1;
                    if got != cur {
                        return Err(format!("op {}: Cache::load returned {:?}, the container holds {:?}", n, got, cur));
                    }
                    if caches[k].1 != cur {
                        st.changes_observed += 1;
                    }
                    caches[k].1 = cur;
                }
            }
            COp::MapLoad(i) => {
                if !mcaches.is_empty() {
                    let k = sel(*i, mcaches.len());
                    let got: String = CacheAccess::load(&mut mcaches[k].0).clone();
                    let want = match cur {
                        None => String::new(),
                        Some(id) if id < 5 => format!("name-{}", id),
                        Some(id) => format!("fresh-{}", id),
                    };
                    st.loads += 1;
                    if got != want {
                        return Err(format!("op {}: mapped cache returned {:?}, expected the projection {:?} of the current value", n, got, want));
                    }
                    if mcaches[k].1 != cur {
                        st.changes_observed += 1;
                    }
                    mcaches[k].1 = cur;
                }
            }
            COp::DropCache(i) => {
                if !caches.is_empty() {
                    let k = sel(*i, caches.len());
                    caches.swap_remove(k);
                }
            }
        }
        st.max_caches = st.max_caches.max(caches.len() + mcaches.len());
        // exact counts: pool + container + caches holding it
        let holders = |id: usize| caches.iter().filter(|(_, h)| *h == Some(id)).count() + mcaches.iter().filter(|(_, h)| *h == Some(id)).count() + (cur == Some(id)) as usize;
        for (i, p) in pool.iter().enumerate() {
            let want = 1 + holders(i);
            if Arc::strong_count(p) != want {
                return Err(format!("op {} {:?}: value {} has strong count {}, expected {} (container + caches that last returned it)", n, op, i, Arc::strong_count(p), want));
            }
        }
        for (id, w) in &fresh {
            let want = holders(*id);
            if w.strong_count() != want {
                return Err(format!("op {} {:?}: fresh value {} has strong count {}, expected {} (a superseded value must be released by the load that observes the change)", n, op, id, w.strong_count(), want));
            }
        }
    }
    Ok(st)
}

pub fn nontrivial(s: &CStats) -> bool {
    s.changes_observed > 0
}
