//! Generated inputs of E1: programs (what every thread does) and cases (program + schedule spec),
//! their proptest strategies, and the per-property profiles (weights).
#![allow(dead_code)]
use crate::rt::{Freeze, Mode, Policy, Role, Spec};
use proptest::prelude::*;
use serde::{Deserialize, Serialize};

#[derive(Clone, Debug, PartialEq, Eq, Serialize, Deserialize)]
pub enum Val {
    /// a freshly created value
    Fresh,
    /// a clone of one of the handles the thread owns (re-store, A-B-A); falls back to Fresh
    Handle(u8),
    /// the empty value
    Null,
}

#[derive(Clone, Debug, PartialEq, Eq, Serialize, Deserialize)]
pub enum Cur {
    /// load the container right before and use that value (likely to succeed)
    Loaded,
    /// one of the handles the thread owns (stale / never stored / A-B-A)
    Handle(u8),
    /// the empty value
    Null,
    /// one of the guards the thread has been holding on that container (possibly stale by now,
    /// possibly the last owner of its value); the guard is consumed
    Held(u8),
}

#[derive(Clone, Copy, Debug, PartialEq, Eq, Serialize, Deserialize)]
pub enum Form {
    /// `&T`
    Ref,
    /// `Guard` by value
    Guard,
    /// `&Guard`
    GuardRef,
    /// raw pointer
    Raw,
}

#[derive(Clone, Debug, PartialEq, Eq, Serialize, Deserialize)]
pub enum Nested {
    None,
    Load(u8),
    Store(u8),
    Rcu(u8),
}

#[derive(Clone, Debug, PartialEq, Eq, Serialize, Deserialize)]
pub enum Op {
    Load(u8),
    LoadFull(u8),
    /// take n guards on container c and keep them
    Hold(u8, u8),
    GuardDeref(u8),
    GuardDrop(u8),
    GuardIntoInner(u8),
    GuardFromInner(u8),
    HandleDeref(u8),
    HandleDrop(u8),
    Store(u8, Val),
    Swap(u8, Val),
    Cas(u8, Cur, Form, Val),
    /// rcu with a "bump" closure (new.num = old.num + 1); nested re-entrant access; injected panic
    /// on the k-th invocation of the closure (0 = never)
    Rcu(u8, Nested, u8),
    SendHandle(u8, u8),
    SendGuard(u8, u8),
    /// a container created, loaded n times, destroyed (dropped or consumed) and only then are the
    /// guards dereferenced and dropped
    TempCont(u8, bool),
    /// preset the thread's helping generation so that it wraps after j more fallback loads
    SetGen(u8),
    /// wait until every other thread is parked or finished, then full accounting
    Quiesce,
    CacheLoad(u8),
    /// store fresh values into c until told to stop by the designated reader (at most n times)
    WriteLoop(u8, u8),
    /// mark a fresh value so that its destructor panics, and store it
    StorePanicky(u8),
    /// a projected guard (Map over the container) kept like a guard
    MapLoad(u8),
    /// A-B-A on the pointer: swap a fresh value in, then swap the very same old pointer back
    Aba(u8),
    /// address recycling across containers: replace and release the value of container a, then
    /// store two fresh values into container b (with address reuse the first one tends to land on
    /// the address just freed, the second store removes it again and walks the debts)
    Recycle(u8, u8),
}

#[derive(Clone, Debug, PartialEq, Eq, Serialize, Deserialize)]
pub struct ThreadSpec {
    /// start only after thread `.0` has finished; `.1` = with a happens-before edge from its exit
    pub after: Option<(u8, bool)>,
    pub ops: Vec<Op>,
    /// at exit, hand all live guards to the finalizer (thread 0) instead of dropping them
    pub bequeath: bool,
    /// operations executed from a thread-local destructor after the crate's own TLS is gone
    pub dtor_ops: Vec<Op>,
}

#[derive(Clone, Debug, PartialEq, Eq, Serialize, Deserialize)]
pub struct Program {
    /// 0 = DefaultStrategy, 1 = HybridStrategy<NoFastSlots> (fallback only)
    pub strat: u8,
    pub ncont: u8,
    /// initial value of container i is empty
    pub init_null: Vec<bool>,
    /// freed addresses are re-issued to new values
    pub reuse: bool,
    /// thread 0 is the finalizer: after its own ops it waits for everybody, then destroys the
    /// containers (consume[i]: into_inner instead of drop) and only then drops the guards it holds
    pub threads: Vec<ThreadSpec>,
    pub consume: Vec<bool>,
    pub outlive: bool,
    /// percentage of values whose destructor panics (fault injection)
    #[serde(default)]
    pub panicky: u8,
    /// simulated pointee type of container i (empty: all of one type). Values are made for one
    /// container type and the interpreter never offers a value of another type to a container.
    #[serde(default)]
    pub ctype: Vec<u8>,
}

#[derive(Clone, Debug, PartialEq, Eq, Serialize, Deserialize)]
pub struct Case {
    pub prog: Program,
    pub spec: Spec,
}

impl Case {
    pub fn hash64(&self) -> u64 {
        use std::hash::{Hash, Hasher};
        let s = serde_json::to_string(self).unwrap();
        let mut h = std::collections::hash_map::DefaultHasher::new();
        s.hash(&mut h);
        h.finish()
    }
}

/// Weights of the operation generator and shape parameters: one per property check.
#[derive(Clone, Debug)]
pub struct Profile {
    pub name: &'static str,
    pub threads: (usize, usize),
    pub ops: (usize, usize),
    pub conts: (usize, usize),
    pub w_load: u32,
    pub w_loadfull: u32,
    pub w_hold: u32,
    pub w_gderef: u32,
    pub w_gdrop: u32,
    pub w_ginto: u32,
    pub w_gfrom: u32,
    pub w_hderef: u32,
    pub w_hdrop: u32,
    pub w_store: u32,
    pub w_swap: u32,
    pub w_cas: u32,
    pub w_rcu: u32,
    pub w_sendh: u32,
    pub w_sendg: u32,
    pub w_temp: u32,
    pub w_setgen: u32,
    pub w_quiesce: u32,
    pub w_cache: u32,
    pub w_panicky: u32,
    pub w_map: u32,
    pub w_aba: u32,
    pub w_recycle: u32,
    /// weight of the role-triggered Stall policy among the schedule policies (Rand = 5, PCT = 2)
    pub w_stall: u32,
    pub rcu_panic: bool,
    pub rcu_nested: bool,
    pub late: u32,   // percent chance (per extra thread) of a late-starting thread
    pub dtor: u32,   // percent chance of dtor ops on a thread
    pub bequeath: u32,
    pub outlive: u32,
    pub reuse: u32,
    pub nofast: u32, // percent of cases on the fallback-only strategy
    pub null: u32,   // percent weight of Null among values
    pub restore: u32,
    /// modes: weights SC, M1, M2
    pub modes: (u32, u32, u32),
    pub freeze: u32,
    pub burst: bool,
    pub budget: u32,
    /// percent of cases in which a share of all values has a panicking destructor
    pub panicky_cases: u32,
    /// percent of cases (with at least two containers) whose containers are of two pointee types
    pub types: u32,
}

impl Profile {
    pub fn base(name: &'static str) -> Profile {
        Profile {
            name,
            threads: (2, 4),
            ops: (1, 6),
            conts: (1, 2),
            w_load: 6,
            w_loadfull: 2,
            w_hold: 1,
            w_gderef: 2,
            w_gdrop: 2,
            w_ginto: 1,
            w_gfrom: 0,
            w_hderef: 1,
            w_hdrop: 2,
            w_store: 4,
            w_swap: 4,
            w_cas: 2,
            w_rcu: 2,
            w_sendh: 1,
            w_sendg: 1,
            w_temp: 0,
            w_setgen: 0,
            w_quiesce: 0,
            w_cache: 0,
            w_panicky: 0,
            w_map: 0,
            w_aba: 0,
            w_recycle: 0,
            w_stall: 2,
            rcu_panic: false,
            rcu_nested: false,
            late: 30,
            dtor: 0,
            bequeath: 20,
            outlive: 30,
            reuse: 30,
            nofast: 35,
            null: 8,
            restore: 12,
            modes: (1, 0, 3),
            freeze: 0,
            burst: false,
            budget: 20000,
            panicky_cases: 0,
            types: 0,
        }
    }
}

fn val_strategy(p: &Profile) -> BoxedStrategy<Val> {
    let fresh = 100u32.saturating_sub(p.null + p.restore).max(1);
    prop_oneof![
        fresh => Just(Val::Fresh),
        p.restore.max(1) => any::<u8>().prop_map(Val::Handle),
        p.null.max(1) => Just(Val::Null),
    ]
    .boxed()
}

fn op_strategy(p: &Profile, ncont: u8, nthreads: u8) -> BoxedStrategy<Op> {
    let c = 0..ncont;
    let i = any::<u8>();
    let v = val_strategy(p);
    let nested = if p.rcu_nested {
        prop_oneof![4 => Just(Nested::None), 1 => (0..ncont).prop_map(Nested::Load), 1 => (0..ncont).prop_map(Nested::Store), 1 => (0..ncont).prop_map(Nested::Rcu)].boxed()
    } else {
        Just(Nested::None).boxed()
    };
    let panic_at = if p.rcu_panic { prop_oneof![1 => Just(0u8), 2 => 1u8..4].boxed() } else { Just(0u8).boxed() };
    let cur = prop_oneof![4 => Just(Cur::Loaded), 3 => any::<u8>().prop_map(Cur::Handle), 1 => Just(Cur::Null), 3 => any::<u8>().prop_map(Cur::Held)];
    let form = prop_oneof![Just(Form::Ref), Just(Form::Guard), Just(Form::GuardRef), Just(Form::Raw)];
    let mut alts: Vec<(u32, BoxedStrategy<Op>)> = Vec::new();
    let mut add = |w: u32, s: BoxedStrategy<Op>| {
        if w > 0 {
            alts.push((w, s));
        }
    };
    add(p.w_load, c.clone().prop_map(Op::Load).boxed());
    add(p.w_loadfull, c.clone().prop_map(Op::LoadFull).boxed());
    add(p.w_hold, (c.clone(), 1u8..12).prop_map(|(c, n)| Op::Hold(c, n)).boxed());
    add(p.w_gderef, i.clone().prop_map(Op::GuardDeref).boxed());
    add(p.w_gdrop, i.clone().prop_map(Op::GuardDrop).boxed());
    add(p.w_ginto, i.clone().prop_map(Op::GuardIntoInner).boxed());
    add(p.w_gfrom, i.clone().prop_map(Op::GuardFromInner).boxed());
    add(p.w_hderef, i.clone().prop_map(Op::HandleDeref).boxed());
    add(p.w_hdrop, i.clone().prop_map(Op::HandleDrop).boxed());
    add(p.w_store, (c.clone(), v.clone()).prop_map(|(c, v)| Op::Store(c, v)).boxed());
    add(p.w_swap, (c.clone(), v.clone()).prop_map(|(c, v)| Op::Swap(c, v)).boxed());
    add(p.w_cas, (c.clone(), cur, form, v.clone()).prop_map(|(c, cu, f, v)| Op::Cas(c, cu, f, v)).boxed());
    add(p.w_rcu, (c.clone(), nested, panic_at).prop_map(|(c, n, k)| Op::Rcu(c, n, k)).boxed());
    if nthreads > 1 {
        add(p.w_sendh, (i.clone(), 0..nthreads).prop_map(|(i, t)| Op::SendHandle(i, t)).boxed());
        add(p.w_sendg, (i.clone(), 0..nthreads).prop_map(|(i, t)| Op::SendGuard(i, t)).boxed());
    }
    add(p.w_temp, (0u8..12, any::<bool>()).prop_map(|(n, b)| Op::TempCont(n, b)).boxed());
    add(p.w_setgen, (0u8..6).prop_map(Op::SetGen).boxed());
    add(p.w_quiesce, Just(Op::Quiesce).boxed());
    add(p.w_cache, c.clone().prop_map(Op::CacheLoad).boxed());
    add(p.w_panicky, c.clone().prop_map(Op::StorePanicky).boxed());
    add(p.w_map, c.clone().prop_map(Op::MapLoad).boxed());
    add(p.w_aba, c.clone().prop_map(Op::Aba).boxed());
    add(p.w_recycle, (c.clone(), c.clone()).prop_map(|(a, b)| Op::Recycle(a, b)).boxed());
    proptest::strategy::Union::new_weighted(alts).boxed()
}

fn pct(p: u32) -> BoxedStrategy<bool> {
    (0u32..100).prop_map(move |x| x < p).boxed()
}

pub fn program_strategy(p: &Profile) -> BoxedStrategy<Program> {
    let p = p.clone();
    let p2 = p.clone();
    ((p.threads.0..=p.threads.1), (p.conts.0..=p.conts.1), pct(p.nofast), pct(p.reuse), pct(p.outlive), (pct(p.panicky_cases), prop_oneof![Just(15u8), Just(30u8), Just(60u8)], pct(p.types)))
        .prop_flat_map(move |(nt, nc, nofast, reuse, outlive, (pk, pkpct, typed))| {
            let p = p2.clone();
            let nt8 = nt as u8;
            let nc8 = nc as u8;
            let thread = move |idx: usize| {
                let p = p.clone();
                let ops = proptest::collection::vec(op_strategy(&p, nc8, nt8), p.ops.0..=p.ops.1);
                let dtor = if p.dtor > 0 {
                    (pct(p.dtor), proptest::collection::vec(prop_oneof![(0..nc8).prop_map(Op::Load), (0..nc8).prop_map(Op::LoadFull), (0..nc8).prop_map(|c| Op::Store(c, Val::Fresh)), (0..nc8).prop_map(|c| Op::Swap(c, Val::Fresh))], 1..3))
                        .prop_map(|(on, v)| if on { v } else { Vec::new() })
                        .boxed()
                } else {
                    Just(Vec::new()).boxed()
                };
                // late start: only for threads other than the finalizer, after a lower-numbered,
                // non-finalizer thread (no cycles by construction)
                let after = if idx >= 2 && p.late > 0 {
                    (pct(p.late), 1..idx as u8, any::<bool>()).prop_map(|(on, d, hb)| if on { Some((d, hb)) } else { None }).boxed()
                } else {
                    Just(None).boxed()
                };
                (after, ops, pct(if idx == 0 { 0 } else { p.bequeath }), dtor).prop_map(|(after, ops, bequeath, dtor_ops)| ThreadSpec { after, ops, bequeath, dtor_ops })
            };
            let threads: Vec<_> = (0..nt).map(|i| thread(i).boxed()).collect();
            let ctype = if typed && nc >= 2 { proptest::collection::vec(0u8..2, nc).boxed() } else { Just(Vec::new()).boxed() };
            (threads, proptest::collection::vec(any::<bool>(), nc), proptest::collection::vec(pct(10), nc), ctype).prop_map(move |(threads, consume, init_null, ctype)| Program {
                strat: nofast as u8,
                ncont: nc8,
                init_null,
                reuse,
                threads,
                consume,
                outlive,
                panicky: if pk { pkpct } else { 0 },
                ctype,
            })
        })
        .boxed()
}

pub fn spec_strategy(p: &Profile, nthreads_hint: usize) -> BoxedStrategy<Spec> {
    let (wsc, wm1, wm2) = p.modes;
    let mode = {
        let mut v: Vec<(u32, BoxedStrategy<Mode>)> = Vec::new();
        if wsc > 0 {
            v.push((wsc, Just(Mode::SC).boxed()));
        }
        if wm1 > 0 {
            v.push((wm1, Just(Mode::M1).boxed()));
        }
        if wm2 > 0 {
            v.push((wm2, Just(Mode::M2).boxed()));
        }
        proptest::strategy::Union::new_weighted(v)
    };
    let nth = nthreads_hint.max(1) as u8;
    let policy = if p.burst {
        prop_oneof![(Just(0u8), prop_oneof![Just(1u8), Just(2u8), Just(4u8)]).prop_map(|(r, k)| Policy::Burst { reader: r, k })].boxed()
    } else {
        let park = prop_oneof![3 => Just(Role::Storage), 2 => Just(Role::FastSlot), 1 => Just(Role::HelpSlot), 2 => Just(Role::Control), 1 => Just(Role::Strong), 1 => Just(Role::ActiveAddr), 2 => Just(Role::ActiveWriters), 1 => Just(Role::InUse)];
        let wake = prop_oneof![3 => Just(Role::ActiveWriters), 2 => Just(Role::Storage), 1 => Just(Role::FastSlot), 2 => Just(Role::Control), 1 => Just(Role::HelpSlot), 2 => Just(Role::InUse)];
        let stall = (0..nth, park, 1u8..4, wake, 1u8..9, 1u8..7).prop_map(|(victim, park_role, park_nth, wake_role, wake_nth, run)| Policy::Stall { victim, park_role, park_nth, wake_role, wake_nth, run });
        let aba_role = prop_oneof![3 => Just(Role::Control), 2 => Just(Role::FastSlot), 1 => Just(Role::HelpSlot), 2 => Just(Role::InUse), 2 => Just(Role::Storage), 1 => Just(Role::ListHead)];
        let aba = (0..nth, aba_role, 1u8..4, 1u8..4).prop_map(|(victim, park_role, park_nth, run)| Policy::AbaStall { victim, park_role, park_nth, run });
        let w_stall = std::env::var("VCHECK_STALL_WEIGHT").ok().and_then(|s| s.parse::<u32>().ok()).unwrap_or(p.w_stall).max(1);
        prop_oneof![
            5 => prop_oneof![Just(16u8), Just(32u8), Just(64u8), Just(128u8)].prop_map(|p| Policy::Rand { p }),
            2 => (1u8..5, 40u16..600).prop_map(|(d, len)| Policy::Pct { d, len }),
            w_stall => stall,
            (w_stall / 2).max(1) => aba,
        ]
        .boxed()
    };
    let stale = prop_oneof![Just(32u8), Just(64u8), Just(128u8)];
    let budget = p.budget;
    let fz = p.freeze;
    let freeze = (0u32..100, 0u32..400, 0..nth, 1u8..3).prop_map(move |(x, at, keep, n)| if x < fz { Some(Freeze { at, keep, n_ops: n }) } else { None });
    (mode, policy, any::<u64>(), stale, freeze)
        .prop_map(move |(mode, policy, seed, stale, freeze)| Spec { mode, policy, seed, stale: if mode == Mode::SC { 0 } else { stale }, spurious: 8, freeze, budget, decisions: None })
        .boxed()
}

pub fn case_strategy(p: &Profile) -> BoxedStrategy<Case> {
    let p2 = p.clone();
    program_strategy(p)
        .prop_flat_map(move |prog| {
            let n = prog.threads.len();
            (Just(prog), spec_strategy(&p2, n))
        })
        .prop_map(|(prog, spec)| Case { prog, spec })
        .boxed()
}


/// C13 (second part): programs built around one deep scenario instead of free-form ones - the
/// generation counter of a thread wraps inside a *nested* load (a writer that helps readers loads
/// on their behalf) while another writer has been stalled, since the very first transaction of
/// that thread's node, just before handing over its replacement. Roles: thread 1 = A (one fallback
/// load of container 0, generation preset, then writes to container 1), thread 2 = W (a write to
/// container 0, the victim of the Stall policy: parked right before the compare-exchange on the
/// reader's control word, released for 1-3 steps on the n-th later access of the storage), threads
/// 3.. = readers of container 1 that spend most of their time inside helping transactions.
/// Everything else (operation kinds, counts, n, which access W parks at, strategy, memory model,
/// address reuse) is drawn at random.
pub fn nestwrap_strategy() -> BoxedStrategy<Case> {
    let a_write = || prop_oneof![3 => Just(Op::Store(1, Val::Fresh)), 2 => Just(Op::Swap(1, Val::Fresh)), 1 => Just(Op::Rcu(1, Nested::None, 0)), 1 => Just(Op::Cas(1, Cur::Loaded, Form::Ref, Val::Fresh))];
    let w_write = proptest::collection::vec(prop_oneof![3 => Just(Op::Store(0, Val::Fresh)), 2 => Just(Op::Swap(0, Val::Fresh)), 1 => Just(Op::Rcu(0, Nested::None, 0))], 1..7);
    let reader = || prop_oneof![3 => (3u8..12).prop_map(|n| vec![Op::Hold(1, n)]), 1 => (2usize..7).prop_map(|n| vec![Op::Load(1); n]), 1 => (2u8..8).prop_map(|n| vec![Op::Load(1), Op::Hold(1, n), Op::LoadFull(1)])];
    let park = prop_oneof![8 => Just(Role::Handover), 1 => Just(Role::SpaceOffer), 1 => Just(Role::Control), 1 => Just(Role::ActiveAddr)];
    let wake = prop_oneof![5 => Just(Role::Storage), 1 => Just(Role::Control), 1 => Just(Role::HelpSlot)];
    (
        (pct(70), any::<bool>(), 0u8..3, proptest::collection::vec(a_write(), 1..3), w_write, any::<bool>(), 1u8..4),
        (proptest::collection::vec(reader(), 2..4), any::<bool>(), any::<bool>()),
        (park, 1u8..3, wake, 1u8..40, 1u8..4, any::<u64>(), pct(40), prop_oneof![Just(32u8), Just(64u8), Just(128u8)], pct(65)),
    )
        .prop_map(|((nofast, reuse, j, a_writes, w_write, w_pre, a_loads), (readers, consume0, consume1), (park_role, park_nth, wake_role, wake_nth, run, seed, sc, stale, aba))| {
            let mut a_ops = Vec::new();
            if !nofast {
                // default strategy: fill the fast slots first so that every later load of A is a
                // helping transaction
                a_ops.push(Op::Hold(1, 8));
            }
            // the first transactions on A's node: generations 6, 10, 14 ...
            a_ops.push(Op::Hold(0, a_loads));
            a_ops.push(Op::SetGen(j));
            a_ops.extend(a_writes);
            let mut w_ops = Vec::new();
            if w_pre {
                w_ops.push(Op::Load(1));
            }
            w_ops.extend(w_write);
            let mut threads = vec![ThreadSpec { after: None, ops: Vec::new(), bequeath: false, dtor_ops: Vec::new() }, ThreadSpec { after: None, ops: a_ops, bequeath: false, dtor_ops: Vec::new() }, ThreadSpec { after: None, ops: w_ops, bequeath: false, dtor_ops: Vec::new() }];
            for r in readers {
                threads.push(ThreadSpec { after: None, ops: r, bequeath: false, dtor_ops: Vec::new() });
            }
            let prog = Program { strat: nofast as u8, ncont: 2, init_null: vec![false, false], reuse, threads, consume: vec![consume0, consume1], outlive: false, panicky: 0, ctype: Vec::new() };
            let mode = if sc { Mode::SC } else { Mode::M2 };
            // W is parked right before its compare-exchange on a control word and released when
            // that word holds the generation W expects once more (ABA adversary), or - the older
            // formulation - parked after a given access and released after the n-th storage access
            let policy = if aba { Policy::AbaStall { victim: 2, park_role: Role::Control, park_nth, run } } else { Policy::Stall { victim: 2, park_role, park_nth, wake_role, wake_nth, run } };
            let spec = Spec { mode, policy, seed, stale: if mode == Mode::SC { 0 } else { stale }, spurious: 8, freeze: None, budget: 20000, decisions: None };
            Case { prog, spec }
        })
        .boxed()
}
