//! Dispatch of the sequential (E2) and type-level (E3) engines: which parts a check consists of,
//! their workers, their replay.
#![allow(dead_code)]
use crate::checks::e1_check;
use crate::driver::{self, e2_loop, nworkers, Part};
use crate::{accessseq, cacheseq, kinds, mixseq, seq, serdechk, types};
use proptest::strategy::{Strategy, ValueTree};
use serde_json::{json, Value};

pub fn parts(id: &str, thorough: bool) -> Vec<Part> {
    let w = nworkers();
    let mut v = Vec::new();
    let mut e2 = |name: &str, q: usize, t: usize, rule: &str| v.push(Part { name: name.into(), cases: if thorough { t } else { q }, rule: rule.into(), workers: w });
    match id {
        "C14" => e2("C14seq", 40_000, 1_500_000, "programs (1-60 ops) over new/from/with_strategy/from_pointee/empty, load, load_full, Guard::into_inner/from_inner, guard drop in any order, store, swap, compare_and_swap in every form, rcu, into_inner, drop on 1-3 containers with a pool of 5 values + fresh values + None, both flavours; each program is run under DefaultStrategy, HybridStrategy<NoFastSlots> and RwLock<()> and compared after every step with a plain-variable model: identities, strong counts in [owners, owners + live guards], destroyed exactly once when unowned. Non-trivial: a guard was held across a write to its container, or rcu/CAS/None/>=2 containers were used."),
        "C15" => {
            e2("C15kinds", 60_000, 2_000_000, "kind in {Arc, Rc, Option of either, sync::Weak, rc::Weak, Option of Weak, dangling Weak, Weak with dropped target, None} x pointee in {ZST, u8, u64, [u8;24], String, align(64)} x extra strong 0-3 x extra weak 0-3 x 1-11 trait calls / container round trips; shadow model of (strong, weak) and identity. Non-trivial: an empty value, a dropped target or outstanding weak references were involved.");
            e2("C15mix", 40_000, 1_500_000, "programs (1-39 ops) over a pool of 3 allocations + fresh ones and 1-4 containers of mixed pointer kinds (ArcSwapAny<Strong>, <Option<Strong>>, <Weak>, <Option<Weak>>; Strong/Weak = Arc/sync::Weak or Rc/rc::Weak; default or fallback-only strategy) in which the same allocation sits in containers of both classes while guards of both classes are alive: load, load_full, store, swap, rcu, compare_and_swap, storing back a handle obtained earlier (a Weak whose target is gone included), up to 11 guards at once, guard/handle/pool-handle release in any order, deref/upgrade of guards, at the end containers dropped or consumed before or after the guards; against a plain-variable model with exact strong and weak counts (whether a guard owns a count or borrows through a slot, and when that changes, is read off the slots as decoded by the crate's hook), occupied slots == borrowing guards after every step, destruction exactly once and exactly when the last strong owner/guard goes, Weak upgrades iff alive, every allocation freed at the end (counting allocator). Non-trivial: an allocation was in containers of both classes, a guard was alive across a write that removed its allocation from a container, or a Weak guard outlived its target.");
        }
        "C01" => e2("C01mix", 30_000, 1_000_000, "programs (1-39 ops) over a pool of 3 allocations + fresh ones and 1-4 containers of mixed pointer kinds (ArcSwapAny<Strong>, <Option<Strong>>, <Weak>, <Option<Weak>>; Strong/Weak = Arc/sync::Weak or Rc/rc::Weak; default or fallback-only strategy) in which the same allocation sits in containers of both classes while guards of both classes are alive: load, load_full, store, swap, rcu, compare_and_swap, storing back a handle obtained earlier (a Weak whose target is gone included), up to 11 guards at once, guard/handle/pool-handle release in any order, deref/upgrade of guards, at the end containers dropped or consumed before or after the guards; against a plain-variable model with exact strong and weak counts (whether a guard owns a count or borrows through a slot, and when that changes, is read off the slots as decoded by the crate's hook), occupied slots == borrowing guards after every step, destruction exactly once and exactly when the last strong owner/guard goes, Weak upgrades iff alive, every allocation freed at the end (counting allocator). Non-trivial: an allocation was in containers of both classes, a guard was alive across a write that removed its allocation from a container, or a Weak guard outlived its target."),
        "C02" => e2("C02mix", 30_000, 1_000_000, "programs (1-39 ops) over a pool of 3 allocations + fresh ones and 1-4 containers of mixed pointer kinds (ArcSwapAny<Strong>, <Option<Strong>>, <Weak>, <Option<Weak>>; Strong/Weak = Arc/sync::Weak or Rc/rc::Weak; default or fallback-only strategy) in which the same allocation sits in containers of both classes while guards of both classes are alive: load, load_full, store, swap, rcu, compare_and_swap, storing back a handle obtained earlier (a Weak whose target is gone included), up to 11 guards at once, guard/handle/pool-handle release in any order, deref/upgrade of guards, at the end containers dropped or consumed before or after the guards; against a plain-variable model with exact strong and weak counts (whether a guard owns a count or borrows through a slot, and when that changes, is read off the slots as decoded by the crate's hook), occupied slots == borrowing guards after every step, destruction exactly once and exactly when the last strong owner/guard goes, Weak upgrades iff alive, every allocation freed at the end (counting allocator). Non-trivial: an allocation was in containers of both classes, a guard was alive across a write that removed its allocation from a container, or a Weak guard outlived its target."),
        "C12" => e2("C12mix", 40_000, 1_500_000, "programs (1-39 ops) over a pool of 3 allocations + fresh ones and 1-4 containers of mixed pointer kinds (ArcSwapAny<Strong>, <Option<Strong>>, <Weak>, <Option<Weak>>; Strong/Weak = Arc/sync::Weak or Rc/rc::Weak; default or fallback-only strategy) in which the same allocation sits in containers of both classes while guards of both classes are alive: load, load_full, store, swap, rcu, compare_and_swap, storing back a handle obtained earlier (a Weak whose target is gone included), up to 11 guards at once, guard/handle/pool-handle release in any order, deref/upgrade of guards, at the end containers dropped or consumed before or after the guards; against a plain-variable model with exact strong and weak counts (whether a guard owns a count or borrows through a slot, and when that changes, is read off the slots as decoded by the crate's hook), occupied slots == borrowing guards after every step, destruction exactly once and exactly when the last strong owner/guard goes, Weak upgrades iff alive, every allocation freed at the end (counting allocator). Non-trivial: an allocation was in containers of both classes, a guard was alive across a write that removed its allocation from a container, or a Weak guard outlived its target."),
        "C16" => e2("C16seq", 30_000, 500_000, "store sequences (pool value, fresh, same again, A-B-A, None) x loads of up to 4 caches, clones and 3 mapped caches on the real Arc: Cache::load == current value, strong counts == container + caches that last returned it, superseded value released by the observing load, mapped cache == projection. Non-trivial: a cache observed a change."),
        "C17" => e2("C17seq", 30_000, 500_000, "9 projection chains (Map depth 1-4 over &, Arc, Box<dyn DynAccess>, AccessConvert, the map method, direct Access<T>) x store/load/deref/drop sequences: every deref yields value and address of the snapshot current at the guard's load, the snapshot stays alive exactly as long as a guard needs it, static and dynamic dispatch agree, Constant yields its value. Non-trivial: a store happened during the life of a guard that was dereferenced afterwards."),
        "C20" => e2("C20serde", 40_000, 1_000_000, "values of a serde data model (unit, bool, ints, char, strings, options, sequences, maps, tuples, newtypes, structs, enum variants; nested to depth 3; in a fifth of the cases a zero-sized or fixed pointee instead: (), unit struct, empty struct, [u8;0], PhantomData, tuple struct of (), u64, (u8,())) for ArcSwap<V> and ArcSwapOption<V> (None included) under the three default-constructible strategies: identical token stream through a recording Serializer, identical JSON, deserialization (from text and from serde_json::Value) equals deserializing the pointer with strong count 1, round trip, and Deserialize::deserialize_in_place into a container on which a guard is held (guard keeps its value, counts exact). Non-trivial: value nested, None, zero-sized pointee, or containing a string/sequence."),
        _ => {}
    }
    drop(e2);
    if let Some(c) = e1_check(id) {
        v.push(Part { name: id.into(), cases: if thorough { c.thorough } else { c.quick }, rule: c.rule.into(), workers: w });
    }
    if id == "C11" {
        let c = e1_check("C11dtor").unwrap();
        v.push(Part { name: "C11dtor".into(), cases: if thorough { c.thorough } else { c.quick }, rule: c.rule.into(), workers: w });
    }
    if id == "C13" {
        let c = e1_check("C13nest").unwrap();
        v.push(Part { name: "C13nest".into(), cases: if thorough { c.thorough } else { c.quick }, rule: c.rule.into(), workers: w });
    }
    if let Ok(n) = std::env::var("VCHECK_CASES") {
        if let Ok(n) = n.parse::<usize>() {
            for p in v.iter_mut() {
                p.cases = n;
            }
        }
    }
    v
}

pub fn assumptions(_id: &str) -> Vec<String> {
    vec![
        "sequential engine: single-threaded programs on the real std Arc/Rc/Weak; strong/weak counts read through std's own accessors".into(),
        "the reference model (plain variable + owner counts) is the specification of the documented API".into(),
        "bounds: program length and value pool as stated in the rule".into(),
    ]
}

pub fn worker(part: &str, widx: u64, n: usize, seed: u64, outdir: &str) -> i32 {
    match part {
        "C14seq" => e2_loop(part, "C14", seq::prog_strategy(), widx, n, seed, outdir, |p: &seq::SProg| seq::run_prog(p).map(|s| (seq::nontrivial(&s), serde_json::to_value(&s).unwrap()))),
        "C15kinds" => e2_loop(part, "C15", kinds::case_strategy(), widx, n, seed, outdir, |c: &kinds::KCase| {
            kinds::run_case(c).map(|_| {
                let mut m = serde_json::Map::new();
                m.insert(format!("kind_{:?}", c.kind), json!(1));
                m.insert(format!("pointee_{}", c.pointee), json!(1));
                m.insert(if c.rc_family { "family_rc".into() } else { "family_arc".to_string() }, json!(1));
                (kinds::nontrivial(c), Value::Object(m))
            })
        }),
        "C01mix" | "C02mix" | "C12mix" | "C15mix" => e2_loop(part, &part[..3], mixseq::case_strategy(), widx, n, seed, outdir, |c: &mixseq::MCase| mixseq::run_case(c).map(|s| (mixseq::nontrivial(&s), serde_json::to_value(&s).unwrap()))),
        "C16seq" => e2_loop(part, "C16", cacheseq::case_strategy(), widx, n, seed, outdir, |c: &cacheseq::CCase| cacheseq::run_case(c).map(|s| (cacheseq::nontrivial(&s), serde_json::to_value(&s).unwrap()))),
        "C17seq" => e2_loop(part, "C17", accessseq::case_strategy(), widx, n, seed, outdir, |c: &accessseq::ACase| accessseq::run_case(c).map(|s| (accessseq::nontrivial(&s), serde_json::to_value(&s).unwrap()))),
        "C20serde" => e2_loop(part, "C20", serdechk::case_strategy(), widx, n, seed, outdir, |c: &serdechk::SCase| {
            serdechk::run_case(c).map(|_| {
                let mut m = serde_json::Map::new();
                m.insert(if c.value.is_none() { "none".into() } else { "some".to_string() }, json!(1));
                m.insert(if c.option_flavour { "flavour_option".into() } else { "flavour_plain".to_string() }, json!(1));
                (serdechk::nontrivial(c), Value::Object(m))
            })
        }),
        _ => {
            eprintln!("unknown part {}", part);
            2
        }
    }
}

pub fn replay(engine: &str, case: &Value) -> Result<(), String> {
    fn de<T: serde::de::DeserializeOwned>(v: &Value) -> Result<T, String> {
        serde_json::from_value(v.clone()).map_err(|e| format!("cannot parse the replay case: {}", e))
    }
    match engine {
        "C14seq" => seq::run_prog(&de(case)?).map(|_| ()),
        "C15kinds" => kinds::run_case(&de(case)?),
        "C01mix" | "C02mix" | "C12mix" | "C15mix" => mixseq::run_case(&de(case)?).map(|_| ()),
        "C16seq" => cacheseq::run_case(&de(case)?).map(|_| ()),
        "C17seq" => accessseq::run_case(&de(case)?).map(|_| ()),
        "C20serde" => serdechk::run_case(&de(case)?),
        "C19types" => {
            let idx: usize = de(case)?;
            let t = types::table();
            let bad = types::check(&t[idx..idx + 1]);
            if bad.is_empty() {
                types::rustc_probe(&t[idx], idx)
            } else {
                Err(bad.join("; "))
            }
        }
        _ => Err(format!("unknown engine {}", engine)),
    }
}

/// C19: exhaustive table + rustc cross-validation of sampled rows
pub fn c19(tier: &str) -> i32 {
    let t0 = std::time::Instant::now();
    let seed = driver::default_seed();
    let rows = types::table();
    let bad = types::check(&rows);
    let nprobe = if tier == "thorough" { 96 } else { 16 };
    let nprobe = std::env::var("VCHECK_CASES").ok().and_then(|s| s.parse().ok()).unwrap_or(nprobe);
    let nontrivial = rows.iter().filter(|r| !(r.k_send && r.k_sync)).count();
    let write_replay = |idx: usize, msg: &str| -> String {
        let rp = driver::Replay2 { property: "C19".into(), oracle: "E3".into(), msg: msg.into(), engine: "C19types".into(), tree_rev: driver::tree_rev(), case: json!(idx) };
        let dir = format!("{}/work/replays", driver::verif_dir());
        let _ = std::fs::create_dir_all(&dir);
        let path = format!("{}/C19types-row{}.json", dir, idx);
        std::fs::write(&path, serde_json::to_string_pretty(&rp).unwrap()).unwrap();
        path
    };
    let mut violations = 0;
    if !bad.is_empty() {
        for b in bad.iter().take(8) {
            println!("marker rule: {}", b);
        }
        // replay = the first offending row
        let idx = rows.iter().position(|r| !types::check(std::slice::from_ref(r)).is_empty()).unwrap();
        println!("VIOLATION property=C19 replay={}", write_replay(idx, &bad[0]));
        violations = bad.len();
    }
    // sampled rows, generated by proptest (indices into the table), validated with rustc
    let mut probed = Vec::new();
    let mut probe_fail: Option<String> = None;
    if violations == 0 {
        use proptest::test_runner::{Config, RngAlgorithm, TestRng, TestRunner};
        let mut sb = [0u8; 32];
        sb[..8].copy_from_slice(&seed.to_le_bytes());
        sb[8] = 19;
        let mut runner = TestRunner::new_with_rng(Config { failure_persistence: None, ..Config::default() }, TestRng::from_seed(RngAlgorithm::ChaCha, &sb));
        let strat = proptest::collection::vec(0..rows.len(), nprobe);
        let mut idxs = strat.new_tree(&mut runner).unwrap().current();
        idxs.sort();
        idxs.dedup();
        let results: Vec<(usize, Result<(), String>)> = std::thread::scope(|s| {
            let hs: Vec<_> = idxs
                .chunks((idxs.len() + 15) / 16)
                .map(|ch| {
                    let rows = &rows;
                    s.spawn(move || ch.iter().map(|&i| (i, types::rustc_probe(&rows[i], i))).collect::<Vec<_>>())
                })
                .collect();
            hs.into_iter().flat_map(|h| h.join().unwrap()).collect()
        });
        for (i, r) in results {
            probed.push(i);
            if let Err(m) = r {
                if probe_fail.is_none() {
                    println!("rustc cross-validation: {}", m);
                    if m.contains("another reason") || m.contains("not found") {
                        probe_fail = Some(m);
                    } else {
                        println!("VIOLATION property=C19 replay={}", write_replay(i, &m));
                        violations += 1;
                        probe_fail = Some(m);
                    }
                }
            }
        }
    }
    let samples: Vec<Value> = rows.iter().step_by(97).take(6).map(|r| json!({"wrapper": r.wrapper, "kind": r.kind, "pointee": r.pointee, "strategy": r.strategy, "Send": r.w_send, "Sync": r.w_sync, "pointer_Send": r.k_send, "pointer_Sync": r.k_sync})).collect();
    let n_send = rows.iter().filter(|r| r.w_send).count();
    let n_sync = rows.iter().filter(|r| r.w_sync).count();
    let cov = json!({
        "evaluations": rows.len() + probed.len(),
        "distinct_nontrivial": nontrivial,
        "rule": "exhaustive product: 16 wrappers (ArcSwapAny, Guard, Cache<&_>, Cache<Arc<_>>, MapCache, Map<&_>, Map<Arc<_>>, MapGuard, DirectDeref, DynGuard, Constant, AccessConvert<Box<dyn>>, and MapGuard/Map/MapCache projecting to a thread-safe u32) x 6 pointer kinds (Arc, Option<Arc>, Rc, Option<Rc>, sync::Weak, rc::Weak) x 4 pointee auto-trait combinations x 3 strategies; (Send, Sync) of each instantiation observed at compile time against the current tree and compared with the rule 'W: Send => pointer: Send, W: Sync => pointer: Sync, and the principal types are Send+Sync when the pointer is'; plus 24 type-erased rows (DynGuard<T>, Box<dyn DynAccess<T>>, AccessConvert, MapGuard<DynGuard<T>> for 6 target types) that may never be Send or Sync because what they box is unknown. Non-trivial: instantiations whose stored pointer is not Send+Sync. Sampled rows are re-decided by rustc (a program that needs the bound must be accepted/rejected accordingly).",
        "samples": samples,
        "exhaustive": true,
        "table_rows": rows.len(),
        "rows_send": n_send,
        "rows_sync": n_sync,
        "rustc_probes": probed.len() * 2,
        "rustc_probed_rows": probed,
    });
    let wall = t0.elapsed().as_secs_f64();
    driver::write_evidence("C19", tier, seed, "exploration", cov, vec!["the finite product above is the quantified domain; other instantiations are not examined".into(), "auto-trait observation by inherent-const-shadows-trait-const probe, cross-validated by rustc on the sampled rows".into()], wall, violations);
    if violations > 0 {
        return 1;
    }
    if let Some(m) = probe_fail {
        eprintln!("inconclusive: {}", m);
        return 2;
    }
    println!("C19 {}: {} instantiations ({} with a non-thread-safe pointer), {} rustc probes, {:.1}s: held", tier, rows.len(), nontrivial, probed.len() * 2, wall);
    0
}
