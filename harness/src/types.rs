//! E3 / C19: the Send/Sync markers of every instantiation in a finite product (wrapper x pointer
//! kind x pointee auto-traits x strategy), observed as booleans at compile time against the
//! current tree, compared with a reference rule computed from the components with the same probe;
//! sampled rows are cross-validated by asking rustc to accept/reject a program that needs the bound.
#![allow(dead_code, deprecated)]
use arc_swap::access::{AccessConvert, Constant, DirectDeref, DynAccess, DynGuard, Map, MapGuard};
use arc_swap::cache::{Cache, MapCache};
use arc_swap::strategy::test_strategies::FillFastSlots;
use arc_swap::strategy::DefaultStrategy;
use arc_swap::{ArcSwapAny, Guard};
use serde::{Deserialize, Serialize};
use std::cell::Cell;
use std::marker::PhantomData;
use std::rc::Rc;
use std::sync::{Arc, MutexGuard, RwLock};

struct P<T: ?Sized>(PhantomData<T>);
trait No {
    const SEND: bool = false;
    const SYNC: bool = false;
}
impl<T: ?Sized> No for P<T> {}
impl<T: ?Sized + Send> P<T> {
    const SEND: bool = true;
}
impl<T: ?Sized + Sync> P<T> {
    const SYNC: bool = true;
}

/// !Send + Sync
pub struct NotSendSync(PhantomData<MutexGuard<'static, u32>>);
/// !Send + !Sync
pub struct Neither(PhantomData<*const u8>);

#[derive(Clone, Debug, Serialize, Deserialize)]
pub struct Row {
    pub wrapper: &'static str,
    pub kind: &'static str,
    pub pointee: &'static str,
    pub strategy: &'static str,
    pub w_send: bool,
    pub w_sync: bool,
    pub k_send: bool,
    pub k_sync: bool,
    /// Rust source of the wrapper type (for the rustc cross-validation)
    pub src: String,
}

macro_rules! row {
    ($v:ident, $wn:expr, $W:ty, $K:ty, $kn:expr, $pn:expr, $sn:expr) => {
        $v.push(Row {
            wrapper: $wn,
            kind: $kn,
            pointee: $pn,
            strategy: $sn,
            w_send: P::<$W>::SEND,
            w_sync: P::<$W>::SYNC,
            k_send: P::<$K>::SEND,
            k_sync: P::<$K>::SYNC,
            src: stringify!($W).to_string(),
        });
    };
}
macro_rules! wrappers {
    ($v:ident, $K:ty, $S:ty, $kn:expr, $pn:expr, $sn:expr) => {
        row!($v, "ArcSwapAny", ArcSwapAny<$K, $S>, $K, $kn, $pn, $sn);
        row!($v, "Guard", Guard<$K, $S>, $K, $kn, $pn, $sn);
        row!($v, "Cache<&_>", Cache<&'static ArcSwapAny<$K, $S>, $K>, $K, $kn, $pn, $sn);
        row!($v, "Cache<Arc<_>>", Cache<Arc<ArcSwapAny<$K, $S>>, $K>, $K, $kn, $pn, $sn);
        row!($v, "MapCache", MapCache<&'static ArcSwapAny<$K, $S>, $K, fn(&$K) -> &$K>, $K, $kn, $pn, $sn);
        row!($v, "Map<&_>", Map<&'static ArcSwapAny<$K, $S>, $K, fn(&$K) -> &$K>, $K, $kn, $pn, $sn);
        row!($v, "Map<Arc<_>>", Map<Arc<ArcSwapAny<$K, $S>>, $K, fn(&$K) -> &$K>, $K, $kn, $pn, $sn);
        row!($v, "MapGuard", MapGuard<Guard<$K, $S>, fn(&$K) -> &$K, $K, $K>, $K, $kn, $pn, $sn);
        row!($v, "DirectDeref", DirectDeref<$K, $S>, $K, $kn, $pn, $sn);
        row!($v, "DynGuard", DynGuard<$K>, $K, $kn, $pn, $sn);
        row!($v, "Constant", Constant<$K>, $K, $kn, $pn, $sn);
        row!($v, "AccessConvert<Box<dyn>>", AccessConvert<Box<dyn DynAccess<$K>>>, $K, $kn, $pn, $sn);
        // the same wrappers projecting to a thread-safe target: what they *store* still decides
        row!($v, "MapGuard->u32", MapGuard<Guard<$K, $S>, fn(&$K) -> &u32, $K, u32>, $K, $kn, $pn, $sn);
        row!($v, "Map<&_>->u32", Map<&'static ArcSwapAny<$K, $S>, $K, fn(&$K) -> &u32>, $K, $kn, $pn, $sn);
        row!($v, "Map<Arc<_>>->u32", Map<Arc<ArcSwapAny<$K, $S>>, $K, fn(&$K) -> &u32>, $K, $kn, $pn, $sn);
        row!($v, "MapCache->u32", MapCache<&'static ArcSwapAny<$K, $S>, $K, fn(&$K) -> &u32>, $K, $kn, $pn, $sn);
    };
}
/// type-erased guards / accessors: what they box is unknown, so they may never be Send or Sync,
/// whatever the target type is (the stored pointer is modelled as "not thread-safe")
macro_rules! erased_row {
    ($v:ident, $wn:expr, $W:ty, $pn:expr) => {
        $v.push(Row { wrapper: $wn, kind: "(erased)", pointee: $pn, strategy: "-", w_send: P::<$W>::SEND, w_sync: P::<$W>::SYNC, k_send: false, k_sync: false, src: stringify!($W).to_string() });
    };
}
macro_rules! erased {
    ($v:ident, $Pt:ty, $pn:expr) => {
        erased_row!($v, "DynGuard<target>", DynGuard<$Pt>, $pn);
        erased_row!($v, "Box<dyn DynAccess<target>>", Box<dyn DynAccess<$Pt>>, $pn);
        erased_row!($v, "AccessConvert<Box<dyn DynAccess<target>>>", AccessConvert<Box<dyn DynAccess<$Pt>>>, $pn);
        erased_row!($v, "MapGuard<DynGuard<target>>", MapGuard<DynGuard<$Pt>, fn(&$Pt) -> &$Pt, $Pt, $Pt>, $pn);
    };
}
macro_rules! strategies {
    ($v:ident, $K:ty, $kn:expr, $pn:expr) => {
        wrappers!($v, $K, DefaultStrategy, $kn, $pn, "DefaultStrategy");
        wrappers!($v, $K, FillFastSlots, $kn, $pn, "FillFastSlots");
        wrappers!($v, $K, RwLock<()>, $kn, $pn, "RwLock<()>");
    };
}
macro_rules! kinds {
    ($v:ident, $Pt:ty, $pn:expr) => {
        strategies!($v, Arc<$Pt>, "Arc", $pn);
        strategies!($v, Option<Arc<$Pt>>, "Option<Arc>", $pn);
        strategies!($v, Rc<$Pt>, "Rc", $pn);
        strategies!($v, Option<Rc<$Pt>>, "Option<Rc>", $pn);
        strategies!($v, std::sync::Weak<$Pt>, "sync::Weak", $pn);
        strategies!($v, std::rc::Weak<$Pt>, "rc::Weak", $pn);
    };
}

pub fn table() -> Vec<Row> {
    let mut v = Vec::new();
    kinds!(v, u32, "Send+Sync");
    kinds!(v, Cell<u32>, "Send+!Sync");
    kinds!(v, NotSendSync, "!Send+Sync");
    kinds!(v, Neither, "!Send+!Sync");
    erased!(v, u32, "Send+Sync");
    erased!(v, String, "Send+Sync (String)");
    erased!(v, Arc<u32>, "Send+Sync (Arc<u32>)");
    erased!(v, Cell<u32>, "Send+!Sync");
    erased!(v, NotSendSync, "!Send+Sync");
    erased!(v, Neither, "!Send+!Sync");
    v
}

const PRINCIPAL: &[&str] = &["ArcSwapAny", "Guard", "Cache<&_>", "Cache<Arc<_>>", "Map<&_>", "Map<Arc<_>>", "MapGuard", "MapCache", "MapGuard->u32", "Map<&_>->u32", "Map<Arc<_>>->u32", "MapCache->u32"];

/// the reference rule; returns the violations
pub fn check(rows: &[Row]) -> Vec<String> {
    let mut bad = Vec::new();
    for r in rows {
        let name = format!("{} [{} of {}, {}]", r.wrapper, r.kind, r.pointee, r.strategy);
        if r.w_send && !r.k_send {
            bad.push(format!("{} is Send although the pointer it stores is not", name));
        }
        if r.w_sync && !r.k_sync {
            bad.push(format!("{} is Sync although the pointer it stores is not", name));
        }
        if r.k_send && r.k_sync && PRINCIPAL.contains(&r.wrapper) && !(r.w_send && r.w_sync) {
            bad.push(format!("{} is not Send+Sync (Send={}, Sync={}) although the pointer it stores is thread-safe", name, r.w_send, r.w_sync));
        }
    }
    bad
}

fn find_rlib() -> Option<(String, String)> {
    let exe = std::env::current_exe().ok()?;
    let deps = exe.parent()?.join("deps");
    let mut best: Option<(std::time::SystemTime, String)> = None;
    for e in std::fs::read_dir(&deps).ok()?.flatten() {
        let n = e.file_name().to_string_lossy().to_string();
        if n.starts_with("libarc_swap-") && n.ends_with(".rlib") {
            let t = e.metadata().ok()?.modified().ok()?;
            if best.as_ref().map(|b| t > b.0).unwrap_or(true) {
                best = Some((t, e.path().to_string_lossy().to_string()));
            }
        }
    }
    Some((best?.1, deps.to_string_lossy().to_string()))
}

/// Ask rustc whether `W: Send` / `W: Sync` for one row; must agree with the observed booleans.
pub fn rustc_probe(r: &Row, idx: usize) -> Result<(), String> {
    let (rlib, deps) = find_rlib().ok_or("arc_swap rlib not found")?;
    let dir = format!("{}/work/probes", crate::driver::verif_dir());
    std::fs::create_dir_all(&dir).map_err(|e| e.to_string())?;
    for (bound, expect) in [("Send", r.w_send), ("Sync", r.w_sync)] {
        static UNIQ: std::sync::atomic::AtomicUsize = std::sync::atomic::AtomicUsize::new(0);
        let u = UNIQ.fetch_add(1, std::sync::atomic::Ordering::Relaxed);
        let file = format!("{}/probe_{}_{}_{}_{}.rs", dir, std::process::id(), idx, u, bound);
        let src = format!(
            "#![allow(deprecated, unused_imports, dead_code)]\nuse arc_swap::access::*;\nuse arc_swap::cache::{{Cache, MapCache}};\nuse arc_swap::strategy::test_strategies::FillFastSlots;\nuse arc_swap::strategy::DefaultStrategy;\nuse arc_swap::{{ArcSwapAny, Guard}};\nuse std::cell::Cell;\nuse std::marker::PhantomData;\nuse std::rc::Rc;\nuse std::sync::{{Arc, MutexGuard, RwLock}};\npub struct NotSendSync(PhantomData<MutexGuard<'static, u32>>);\npub struct Neither(PhantomData<*const u8>);\nfn needs<T: ?Sized + {}>() {{}}\nfn main() {{ needs::<{}>(); }}\n",
            bound, r.src
        );
        std::fs::write(&file, src).map_err(|e| e.to_string())?;
        let out = std::process::Command::new("rustc")
            .args(["--edition", "2021", "--crate-type", "bin", "--emit=metadata", "-o"])
            .arg(format!("{}.rmeta", file))
            .args(["-L", &format!("dependency={}", deps), "--extern", &format!("arc_swap={}", rlib)])
            .arg(&file)
            .output()
            .map_err(|e| e.to_string())?;
        let _ = std::fs::remove_file(&file);
        let _ = std::fs::remove_file(format!("{}.rmeta", file));
        let ok = out.status.success();
        let err = String::from_utf8_lossy(&out.stderr);
        if !ok && !err.contains("E0277") {
            return Err(format!("rustc failed for another reason on `{}: {}`: {}", r.src, bound, err.lines().take(6).collect::<Vec<_>>().join(" | ")));
        }
        if ok != expect {
            return Err(format!("the compile-time probe says `{}: {}` is {} but rustc {} a program that needs it", r.src, bound, expect, if ok { "accepts" } else { "rejects" }));
        }
    }
    Ok(())
}
