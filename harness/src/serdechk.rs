//! E2 / C20: serde transparency. A container must serialize exactly as its stored pointer does
//! (token-for-token through a recording Serializer, and as JSON text), deserialize to a container
//! holding exactly the deserialized value with a single reference, and round-trip, for both
//! container flavours and every default-constructible strategy.
#![allow(dead_code, deprecated)]
use arc_swap::strategy::test_strategies::FillFastSlots;
use arc_swap::strategy::{DefaultStrategy, Strategy as AStrategy};
use arc_swap::ArcSwapAny;
use proptest::prelude::*;
use serde::ser::{self, Serialize};
use serde::{Deserialize, Serialize as DSerialize};
use std::collections::BTreeMap;
use std::sync::{Arc, RwLock};

#[derive(Clone, Debug, PartialEq, DSerialize, Deserialize)]
pub struct Point {
    pub a: i32,
    pub b: String,
    pub c: Option<Box<SV>>,
}

#[derive(Clone, Debug, PartialEq, DSerialize, Deserialize)]
pub struct Wrapper(pub u16);

#[derive(Clone, Debug, PartialEq, DSerialize, Deserialize)]
pub enum SV {
    Unit,
    Bool(bool),
    I(i64),
    U(u8),
    Ch(char),
    Str(String),
    Opt(Option<Box<SV>>),
    Seq(Vec<SV>),
    Map(BTreeMap<String, SV>),
    Pair(i8, String),
    Rec(Point),
    New(Wrapper),
    Struct { x: u32, y: Vec<u8> },
}

fn leaf() -> impl Strategy<Value = SV> {
    prop_oneof![
        Just(SV::Unit),
        any::<bool>().prop_map(SV::Bool),
        any::<i64>().prop_map(SV::I),
        any::<u8>().prop_map(SV::U),
        any::<char>().prop_map(SV::Ch),
        "[ -~]{0,12}".prop_map(SV::Str),
        (any::<i8>(), "[a-z]{0,6}").prop_map(|(a, b)| SV::Pair(a, b)),
        any::<u16>().prop_map(|x| SV::New(Wrapper(x))),
        (any::<u32>(), proptest::collection::vec(any::<u8>(), 0..6)).prop_map(|(x, y)| SV::Struct { x, y }),
    ]
}

pub fn sv_strategy() -> impl Strategy<Value = SV> {
    leaf().prop_recursive(3, 24, 4, |inner| {
        prop_oneof![
            proptest::option::of(inner.clone().prop_map(Box::new)).prop_map(SV::Opt),
            proptest::collection::vec(inner.clone(), 0..4).prop_map(SV::Seq),
            proptest::collection::btree_map("[a-z]{1,4}", inner.clone(), 0..4).prop_map(SV::Map),
            (any::<i32>(), "[ -~]{0,8}", proptest::option::of(inner.prop_map(Box::new))).prop_map(|(a, b, c)| SV::Rec(Point { a, b, c })),
        ]
    })
}

#[derive(Clone, Debug, PartialEq, DSerialize, Deserialize)]
pub struct SCase {
    /// None = the empty value of the Option flavour
    pub value: Option<SV>,
    pub option_flavour: bool,
    /// 0 = the pointee is the generated SV; 1.. = a zero-sized / fixed pointee type instead
    /// ((), unit struct, empty struct, [u8; 0], PhantomData, u64, (u8, ()))
    #[serde(default)]
    pub pointee: u8,
}

#[derive(Clone, Debug, PartialEq, DSerialize, Deserialize)]
pub struct UnitS;
#[derive(Clone, Debug, PartialEq, DSerialize, Deserialize)]
pub struct EmptyS {}
#[derive(Clone, Debug, PartialEq, DSerialize, Deserialize)]
pub struct TupleZ(());

pub fn case_strategy() -> impl Strategy<Value = SCase> {
    (proptest::option::weighted(0.85, sv_strategy()), any::<bool>(), prop_oneof![4 => Just(0u8), 1 => 1u8..9]).prop_map(|(value, option_flavour, pointee)| SCase { option_flavour: option_flavour || value.is_none(), value, pointee })
}

// ---- a Serializer that records the calls it receives --------------------------------------------

#[derive(Debug)]
pub struct RecErr(String);
impl std::fmt::Display for RecErr {
    fn fmt(&self, f: &mut std::fmt::Formatter) -> std::fmt::Result {
        write!(f, "{}", self.0)
    }
}
impl std::error::Error for RecErr {}
impl ser::Error for RecErr {
    fn custom<T: std::fmt::Display>(m: T) -> Self {
        RecErr(m.to_string())
    }
}

pub struct Rec<'a>(&'a mut Vec<String>);

macro_rules! prim {
    ($name:ident, $t:ty) => {
        fn $name(self, v: $t) -> Result<(), RecErr> {
            self.0.push(format!("{}({:?})", stringify!($name), v));
            Ok(())
        }
    };
}

impl<'a> ser::Serializer for Rec<'a> {
    type Ok = ();
    type Error = RecErr;
    type SerializeSeq = Rec<'a>;
    type SerializeTuple = Rec<'a>;
    type SerializeTupleStruct = Rec<'a>;
    type SerializeTupleVariant = Rec<'a>;
    type SerializeMap = Rec<'a>;
    type SerializeStruct = Rec<'a>;
    type SerializeStructVariant = Rec<'a>;
    prim!(serialize_bool, bool);
    prim!(serialize_i8, i8);
    prim!(serialize_i16, i16);
    prim!(serialize_i32, i32);
    prim!(serialize_i64, i64);
    prim!(serialize_u8, u8);
    prim!(serialize_u16, u16);
    prim!(serialize_u32, u32);
    prim!(serialize_u64, u64);
    prim!(serialize_f32, f32);
    prim!(serialize_f64, f64);
    prim!(serialize_char, char);
    prim!(serialize_str, &str);
    prim!(serialize_bytes, &[u8]);
    fn serialize_none(self) -> Result<(), RecErr> {
        self.0.push("none".into());
        Ok(())
    }
    fn serialize_some<T: ?Sized + Serialize>(self, v: &T) -> Result<(), RecErr> {
        self.0.push("some".into());
        v.serialize(Rec(self.0))
    }
    fn serialize_unit(self) -> Result<(), RecErr> {
        self.0.push("unit".into());
        Ok(())
    }
    fn serialize_unit_struct(self, n: &'static str) -> Result<(), RecErr> {
        self.0.push(format!("unit_struct({})", n));
        Ok(())
    }
    fn serialize_unit_variant(self, n: &'static str, i: u32, v: &'static str) -> Result<(), RecErr> {
        self.0.push(format!("unit_variant({},{},{})", n, i, v));
        Ok(())
    }
    fn serialize_newtype_struct<T: ?Sized + Serialize>(self, n: &'static str, v: &T) -> Result<(), RecErr> {
        self.0.push(format!("newtype_struct({})", n));
        v.serialize(Rec(self.0))
    }
    fn serialize_newtype_variant<T: ?Sized + Serialize>(self, n: &'static str, i: u32, var: &'static str, v: &T) -> Result<(), RecErr> {
        self.0.push(format!("newtype_variant({},{},{})", n, i, var));
        v.serialize(Rec(self.0))
    }
    fn serialize_seq(self, len: Option<usize>) -> Result<Rec<'a>, RecErr> {
        self.0.push(format!("seq({:?})", len));
        Ok(self)
    }
    fn serialize_tuple(self, len: usize) -> Result<Rec<'a>, RecErr> {
        self.0.push(format!("tuple({})", len));
        Ok(self)
    }
    fn serialize_tuple_struct(self, n: &'static str, len: usize) -> Result<Rec<'a>, RecErr> {
        self.0.push(format!("tuple_struct({},{})", n, len));
        Ok(self)
    }
    fn serialize_tuple_variant(self, n: &'static str, i: u32, v: &'static str, len: usize) -> Result<Rec<'a>, RecErr> {
        self.0.push(format!("tuple_variant({},{},{},{})", n, i, v, len));
        Ok(self)
    }
    fn serialize_map(self, len: Option<usize>) -> Result<Rec<'a>, RecErr> {
        self.0.push(format!("map({:?})", len));
        Ok(self)
    }
    fn serialize_struct(self, n: &'static str, len: usize) -> Result<Rec<'a>, RecErr> {
        self.0.push(format!("struct({},{})", n, len));
        Ok(self)
    }
    fn serialize_struct_variant(self, n: &'static str, i: u32, v: &'static str, len: usize) -> Result<Rec<'a>, RecErr> {
        self.0.push(format!("struct_variant({},{},{},{})", n, i, v, len));
        Ok(self)
    }
}
macro_rules! compound {
    ($tr:ident, $m:ident) => {
        impl<'a> ser::$tr for Rec<'a> {
            type Ok = ();
            type Error = RecErr;
            fn $m<T: ?Sized + Serialize>(&mut self, v: &T) -> Result<(), RecErr> {
                v.serialize(Rec(self.0))
            }
            fn end(self) -> Result<(), RecErr> {
                self.0.push("end".into());
                Ok(())
            }
        }
    };
}
compound!(SerializeSeq, serialize_element);
compound!(SerializeTuple, serialize_element);
compound!(SerializeTupleStruct, serialize_field);
compound!(SerializeTupleVariant, serialize_field);
impl<'a> ser::SerializeMap for Rec<'a> {
    type Ok = ();
    type Error = RecErr;
    fn serialize_key<T: ?Sized + Serialize>(&mut self, v: &T) -> Result<(), RecErr> {
        self.0.push("key".into());
        v.serialize(Rec(self.0))
    }
    fn serialize_value<T: ?Sized + Serialize>(&mut self, v: &T) -> Result<(), RecErr> {
        v.serialize(Rec(self.0))
    }
    fn end(self) -> Result<(), RecErr> {
        self.0.push("end".into());
        Ok(())
    }
}
macro_rules! compound_named {
    ($tr:ident) => {
        impl<'a> ser::$tr for Rec<'a> {
            type Ok = ();
            type Error = RecErr;
            fn serialize_field<T: ?Sized + Serialize>(&mut self, k: &'static str, v: &T) -> Result<(), RecErr> {
                self.0.push(format!("field({})", k));
                v.serialize(Rec(self.0))
            }
            fn end(self) -> Result<(), RecErr> {
                self.0.push("end".into());
                Ok(())
            }
        }
    };
}
compound_named!(SerializeStruct);
compound_named!(SerializeStructVariant);

fn tokens<T: Serialize>(v: &T) -> Result<Vec<String>, String> {
    let mut out = Vec::new();
    v.serialize(Rec(&mut out)).map_err(|e| e.to_string())?;
    Ok(out)
}

// ---- the checks -----------------------------------------------------------------------------------

fn check_one<K, S>(stored: K, name: &str, strong_of: &dyn Fn(&K) -> Option<usize>) -> Result<(), String>
where
    K: arc_swap::RefCnt + Serialize + for<'de> Deserialize<'de> + PartialEq + std::fmt::Debug + Clone,
    S: AStrategy<K> + Default,
{
    let cont: ArcSwapAny<K, S> = ArcSwapAny::from(stored.clone());
    // (1) identical token streams
    let tc = tokens(&cont)?;
    let tp = tokens(&stored)?;
    if tc != tp {
        return Err(format!("[{}] the container serializes as {:?} but its stored pointer as {:?}", name, tc, tp));
    }
    // (2) identical JSON text
    let jc = serde_json::to_string(&cont).map_err(|e| e.to_string())?;
    let jp = serde_json::to_string(&stored).map_err(|e| e.to_string())?;
    if jc != jp {
        return Err(format!("[{}] JSON of the container {} differs from JSON of the stored pointer {}", name, jc, jp));
    }
    // serializing does not change what is stored
    if *cont.load() != stored {
        return Err(format!("[{}] serializing changed the stored value", name));
    }
    // (3) deserializing gives a container holding exactly the deserialized value, one reference
    let back: ArcSwapAny<K, S> = serde_json::from_str(&jp).map_err(|e| format!("[{}] deserialize container: {}", name, e))?;
    let direct: K = serde_json::from_str(&jp).map_err(|e| format!("[{}] deserialize pointer: {}", name, e))?;
    if *back.load() != direct {
        return Err(format!("[{}] deserialized container holds {:?}, deserializing the pointer gives {:?}", name, *back.load(), direct));
    }
    // also through serde's value deserializers (another Deserializer implementation)
    let val: serde_json::Value = serde_json::from_str(&jp).map_err(|e| e.to_string())?;
    let back2: ArcSwapAny<K, S> = serde_json::from_value(val).map_err(|e| format!("[{}] deserialize container from Value: {}", name, e))?;
    if *back2.load() != direct {
        return Err(format!("[{}] container deserialized from a Value holds {:?}, expected {:?}", name, *back2.load(), direct));
    }
    let full = back.load_full();
    if let Some(n) = strong_of(&full) {
        if n != 2 {
            return Err(format!("[{}] a freshly deserialized container's value has strong count {} (container + this handle = 2 expected)", name, n));
        }
    }
    // (4) round trip: the container preserves exactly what the pointer itself preserves (JSON is
    // lossy for a few shapes, e.g. Some(()) reads back as None: that is the format, not the
    // container, so the reference is the pointer's own round trip `direct`, compared in (3));
    // serializing the restored container gives what serializing the restored pointer gives
    let again = serde_json::to_string(&back).map_err(|e| e.to_string())?;
    let again_direct = serde_json::to_string(&direct).map_err(|e| e.to_string())?;
    if again != again_direct {
        return Err(format!("[{}] second serialization of the container {} differs from that of the pointer {}", name, again, again_direct));
    }
    if direct == stored && *back.load() != stored {
        return Err(format!("[{}] round trip changed the value: {:?} -> {:?}", name, stored, *back.load()));
    }
    // (5) the in-place entry point of Deserialize behaves like `*place = deserialize()?`, also
    // while a guard on the old value is alive: the guard keeps denoting the old value, the old
    // value keeps exactly the references of its remaining owners
    {
        let base = strong_of(&stored);
        let mut place: ArcSwapAny<K, S> = ArcSwapAny::from(stored.clone());
        let g = place.load();
        let mut de = serde_json::Deserializer::from_str(&jp);
        Deserialize::deserialize_in_place(&mut de, &mut place).map_err(|e| format!("[{}] deserialize_in_place: {}", name, e))?;
        if *place.load() != direct {
            return Err(format!("[{}] deserialize_in_place left {:?} in the container, plain deserialization gives {:?}", name, *place.load(), direct));
        }
        if *g != stored {
            return Err(format!("[{}] a guard taken before deserialize_in_place now denotes {:?} instead of {:?}", name, *g, stored));
        }
        if let (Some(n), Some(b)) = (strong_of(&stored), base) {
            // owners of the old value now: whoever owned it before + the guard
            if n != b + 1 {
                return Err(format!("[{}] after deserialize_in_place with a live guard the old value has strong count {} (previous owners + the guard = {} expected)", name, n, b + 1));
            }
        }
        drop(g);
        if let (Some(n), Some(b)) = (strong_of(&stored), base) {
            if n != b {
                return Err(format!("[{}] after dropping the guard the old value has strong count {} ({} expected)", name, n, b));
            }
        }
        let full = place.load_full();
        if let Some(n) = strong_of(&full) {
            if n != 2 {
                return Err(format!("[{}] the value deserialized in place has strong count {} (container + this handle = 2 expected)", name, n));
            }
        }
    }
    Ok(())
}

fn run_fixed<V>(v: V, none: bool, option_flavour: bool, what: &str) -> Result<(), String>
where
    V: Serialize + for<'de> Deserialize<'de> + PartialEq + std::fmt::Debug + Clone,
{
    if option_flavour {
        let stored: Option<Arc<V>> = if none { None } else { Some(Arc::new(v)) };
        let sc = |k: &Option<Arc<V>>| k.as_ref().map(Arc::strong_count);
        check_one::<Option<Arc<V>>, DefaultStrategy>(stored.clone(), &format!("ArcSwapOption<{}>/default", what), &sc)?;
        check_one::<Option<Arc<V>>, FillFastSlots>(stored.clone(), &format!("ArcSwapOption<{}>/fallback-only", what), &sc)?;
        check_one::<Option<Arc<V>>, RwLock<()>>(stored, &format!("ArcSwapOption<{}>/rwlock", what), &sc)?;
    } else {
        let stored: Arc<V> = Arc::new(v);
        let sc = |k: &Arc<V>| Some(Arc::strong_count(k));
        check_one::<Arc<V>, DefaultStrategy>(stored.clone(), &format!("ArcSwap<{}>/default", what), &sc)?;
        check_one::<Arc<V>, FillFastSlots>(stored.clone(), &format!("ArcSwap<{}>/fallback-only", what), &sc)?;
        check_one::<Arc<V>, RwLock<()>>(stored, &format!("ArcSwap<{}>/rwlock", what), &sc)?;
    }
    Ok(())
}

pub fn run_case(c: &SCase) -> Result<(), String> {
    let none = c.value.is_none();
    match c.pointee {
        0 => {}
        1 => return run_fixed((), none, c.option_flavour, "()"),
        2 => return run_fixed(UnitS, none, c.option_flavour, "UnitS"),
        3 => return run_fixed(EmptyS {}, none, c.option_flavour, "EmptyS"),
        4 => return run_fixed([0u8; 0], none, c.option_flavour, "[u8; 0]"),
        5 => return run_fixed(std::marker::PhantomData::<u32>, none, c.option_flavour, "PhantomData"),
        6 => return run_fixed(TupleZ(()), none, c.option_flavour, "TupleZ"),
        7 => return run_fixed(0x1122334455667788u64, none, c.option_flavour, "u64"),
        _ => return run_fixed((7u8, ()), none, c.option_flavour, "(u8, ())"),
    }
    if c.option_flavour {
        let stored: Option<Arc<SV>> = c.value.clone().map(Arc::new);
        let sc = |k: &Option<Arc<SV>>| k.as_ref().map(Arc::strong_count);
        check_one::<Option<Arc<SV>>, DefaultStrategy>(stored.clone(), "ArcSwapOption/default", &sc)?;
        check_one::<Option<Arc<SV>>, FillFastSlots>(stored.clone(), "ArcSwapOption/fallback-only", &sc)?;
        check_one::<Option<Arc<SV>>, RwLock<()>>(stored, "ArcSwapOption/rwlock", &sc)?;
    } else {
        let stored: Arc<SV> = Arc::new(c.value.clone().unwrap());
        let sc = |k: &Arc<SV>| Some(Arc::strong_count(k));
        check_one::<Arc<SV>, DefaultStrategy>(stored.clone(), "ArcSwap/default", &sc)?;
        check_one::<Arc<SV>, FillFastSlots>(stored.clone(), "ArcSwap/fallback-only", &sc)?;
        check_one::<Arc<SV>, RwLock<()>>(stored, "ArcSwap/rwlock", &sc)?;
    }
    Ok(())
}

pub fn nontrivial(c: &SCase) -> bool {
    if c.pointee != 0 {
        return true;
    }
    match &c.value {
        None => true,
        Some(v) => matches!(v, SV::Opt(_) | SV::Seq(_) | SV::Map(_) | SV::Rec(_) | SV::Str(_) | SV::Struct { .. } | SV::Pair(..)),
    }
}
