//! O-lin: linearizability of a recorded history of one container against the sequential
//! specification of a pointer cell (load / store / swap / compare-and-swap), by Wing–Gong search
//! with memoisation. Identities are u64 (0 = the empty value).
use crate::rt::MAXT;
use serde::{Deserialize, Serialize};
use std::collections::HashSet;

#[derive(Clone, Copy, Debug, PartialEq, Eq, Serialize, Deserialize)]
pub enum HK {
    Load { got: u64 },
    Store { new: u64 },
    Swap { new: u64, old: u64 },
    /// compare-and-swap; wrote iff prev == cur
    Cas { cur: u64, new: u64, prev: u64 },
}

#[derive(Clone, Debug, Serialize, Deserialize)]
pub struct HEv {
    pub cont: usize,
    pub thread: usize,
    pub kind: Option<HK>,
    pub inv_vc: [u32; MAXT],
    pub inv_step: usize,
    /// (thread epoch at return, logical clock at return); inv_step is the logical clock too
    pub ret: Option<(u32, usize)>,
}

/// does a's return precede b's invocation? real time (scheduler steps) or happens-before
fn precedes(a: &HEv, b: &HEv, real_time: bool) -> bool {
    let Some((e, s)) = a.ret else { return false };
    if real_time {
        s < b.inv_step
    } else {
        e <= b.inv_vc[a.thread]
    }
}

pub enum LinResult {
    Ok,
    /// no linearization exists
    Fail,
    /// too large / search budget exhausted: not decided
    Skipped,
}

/// `init` = identity initially stored. `evs` = completed events of one container.
pub fn check(init: u64, evs: &[&HEv], real_time: bool, max_ops: usize, node_budget: usize) -> LinResult {
    let n = evs.len();
    if n == 0 {
        return LinResult::Ok;
    }
    if n > max_ops || n > 62 {
        return LinResult::Skipped;
    }
    // preds[i] = bitmask of events that must be linearized before i
    let mut preds = vec![0u64; n];
    for i in 0..n {
        for j in 0..n {
            if i != j && precedes(evs[j], evs[i], real_time) {
                preds[i] |= 1 << j;
            }
        }
    }
    let full: u64 = if n == 64 { !0 } else { (1u64 << n) - 1 };
    let mut seen: HashSet<(u64, u64)> = HashSet::new();
    let mut stack: Vec<(u64, u64)> = vec![(0, init)];
    let mut nodes = 0usize;
    while let Some((done, state)) = stack.pop() {
        if done == full {
            return LinResult::Ok;
        }
        if !seen.insert((done, state)) {
            continue;
        }
        nodes += 1;
        if nodes > node_budget {
            return LinResult::Skipped;
        }
        for i in 0..n {
            if done & (1 << i) != 0 || preds[i] & !done != 0 {
                continue;
            }
            let next = match evs[i].kind.unwrap() {
                HK::Load { got } => {
                    if got != state {
                        continue;
                    }
                    state
                }
                HK::Store { new } => new,
                HK::Swap { new, old } => {
                    if old != state {
                        continue;
                    }
                    new
                }
                HK::Cas { cur, new, prev } => {
                    if prev != state {
                        continue;
                    }
                    if prev == cur {
                        new
                    } else {
                        state
                    }
                }
            };
            stack.push((done | (1 << i), next));
        }
    }
    LinResult::Fail
}

#[cfg(test)]
mod tests {
    use super::*;
    fn ev(t: usize, k: HK, inv: usize, ret: usize) -> HEv {
        HEv { cont: 0, thread: t, kind: Some(k), inv_vc: [0; MAXT], inv_step: inv, ret: Some((0, ret)) }
    }
    #[test]
    fn basic() {
        let a = ev(1, HK::Store { new: 2 }, 0, 5);
        let b = ev(2, HK::Load { got: 1 }, 6, 7);
        assert!(matches!(check(1, &[&a, &b], true, 30, 1000), LinResult::Fail));
        let b2 = ev(2, HK::Load { got: 1 }, 3, 7);
        assert!(matches!(check(1, &[&a, &b2], true, 30, 1000), LinResult::Ok));
    }
}
