import json,sys
for f in sys.argv[1:]:
    r=json.load(open(f)); c=r['case']
    print(f, '|', r['oracle'], r['msg'])
    p=c['prog']
    print(' strat',p['strat'],'reuse',p['reuse'],'outlive',p['outlive'],'ncont',p['ncont'],'init_null',p['init_null'],'consume',p['consume'])
    for i,t in enumerate(p['threads']): print('  ',i,'after',t['after'],'beq',t['bequeath'],t['ops'], 'dtor',t['dtor_ops'])
    d=c['spec'].get('decisions') or []
    print('  ',{k:v for k,v in c['spec'].items() if k!='decisions'}, 'decisions',len(d),'nonzero',sum(1 for x in d if x))
