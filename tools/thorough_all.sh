#!/bin/bash
# every check, thorough tier, on the unchanged tree
cd "$(dirname "${BASH_SOURCE[0]}")/.." || exit 2
mkdir -p work
L=work/thorough_all.log; : > $L
for id in ${IDS:-C14 C15 C19 C20 C16 C17 C13 C08 C09 C11 C12 C01 C02 C03 C04 C05 C06 C07 C10 C18}; do
  t0=$(date +%s); out=$(./run $id thorough 2>&1); code=$?; t1=$(date +%s)
  printf "%s exit=%d %ds %s\n" $id $code $((t1-t0)) "$(echo "$out" | grep -E 'VIOLATION|inconclusive|held|KNOWN' | head -2 | cut -c1-200 | tr '\n' ' ')" >> $L
  cp evidence/$id.json work/evidence-thorough-$id.json 2>/dev/null
done
echo DONE >> $L
