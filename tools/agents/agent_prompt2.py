import sys
pid=sys.argv[1]; tag=sys.argv[2]; hint=sys.argv[3]
base=open('/tmp/prompt-%s.txt'%pid).read() if False else None
import subprocess
txt=subprocess.run(['python3','/tmp/agent_prompt.py',pid],capture_output=True,text=True).stdout
txt=txt.replace('/tmp/seed-%s'%pid,'/tmp/seed-%s'%tag)
txt=txt.replace('Task:\n1.','Focus for this assignment (to make the defect different from the obvious ones): %s\n\nTask:\n1.'%hint)
print(txt)
