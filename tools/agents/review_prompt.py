import sys
tag,focus=sys.argv[1],sys.argv[2]
print(f"""You are reviewing the Rust crate vorner/arc-swap (a lock-free atomically swappable Arc using per-thread debt slots, hazard-pointer style, with a helping fallback) for GENUINE DEFECTS that are already present in the code, i.e. real bugs, not style issues. Your private scratch copy is the git worktree /tmp/rev-{tag} (work ONLY there; never touch /repo or /verif and never read anything under /verif). No network; everything builds offline (`cargo test --offline`, set CARGO_TARGET_DIR=/tmp/rev-{tag}/target). `cargo +nightly miri test --offline` also works offline. Files named src/verif.rs and `#[cfg(arc_swap_verif)]` items are inert verification hooks: ignore them.

Focus of your review: {focus}

What counts as a defect: under SOME thread interleaving, memory-model-permitted execution (Rust/C++20 atomics: a Relaxed load may return a stale value; a SeqCst read-modify-write is not a fence), unusual input, panic in user code (closure, Drop or Clone of the pointee), thread start/exit pattern, or long history, the crate
- touches a reference count after the value was destroyed, leaks or double-releases a count, leaves a debt slot occupied;
- returns from load/load_full/swap/compare_and_swap/rcu/Cache::load a value that violates linearizability (never stored in that container, older than a completed store, lost update);
- has a data race on the pointee; blocks or spins without bound; panics or aborts by itself; gets a Send/Sync marker wrong; mis-serializes.

Method: read the code of your focus area carefully (also src/docs/internal.rs for the intended protocol), form concrete hypotheses (exact interleaving step by step, with file:line of every step), and try to CONFIRM each one with a demonstration: a test or small program in /tmp/rev-{tag}/tests or examples (stress test, a test that forces the interleaving by parking a thread inside a user-provided RefCnt/Clone/Drop implementation, a gdb script, or Miri with many seeds). A hypothesis you could not confirm is still worth reporting if the interleaving is spelled out precisely, but say clearly that it is unconfirmed. Do not report things that are merely theoretical without a step-by-step argument.

Write /tmp/rev-{tag}/out/REPORT.md: for each candidate: title, severity, the step-by-step interleaving/input, whether confirmed and how (commands + output), and a suggested minimal fix. Copy demonstrations to /tmp/rev-{tag}/out/. If you find nothing after a thorough review, say so and list what you examined. Work independently; do not ask questions. Finish with a short summary.""")
