import sys
pid=sys.argv[1]
prop=open('/tmp/prop-%s.txt'%pid).read()
print(f"""You are helping to evaluate a verification tool by producing ONE realistic defect ("seeded change") in the Rust crate vorner/arc-swap (a lock-free atomically swappable Arc using per-thread debt slots and a helping fallback).

Your private scratch copy of the crate is the git worktree /tmp/seed-{pid} (work ONLY there; never touch /repo or /verif, never read anything under /verif). There is no network; everything builds offline: use `cargo test --offline ...` inside /tmp/seed-{pid} (set CARGO_TARGET_DIR=/tmp/seed-{pid}/target). Files named src/verif.rs and `#[cfg(arc_swap_verif)]` items are inert verification hooks: leave them alone and do not rely on them.

The semantic property your change must BREAK:

{prop}

Task:
1. Read the relevant code in /tmp/seed-{pid}/src (start with the anchors above and src/docs/internal.rs).
2. Make a SMALL source change to the crate (a few lines, in src/, not in tests) that violates this property but
   - still compiles (`cargo build --offline`, also with `--features weak,internal-test-strategies,serde`),
   - still passes the whole existing test suite unchanged: `cargo test --workspace --no-fail-fast --offline` (all tests that pass on the unchanged tree must still pass; run it at least twice),
   - looks like a plausible mistake or "optimisation" a developer could make (a weakened memory ordering, a dropped or reordered step, a wrong condition, an off-by-one, a missing release/acquire, a removed re-check, a retry loop instead of the fallback, ...),
   - needs something SPECIFIC to manifest: a particular thread interleaving, a stale (relaxed) read permitted by the memory model, a fault or panic at a particular point, a multi-step sequence of operations, an unusual input, or two cooperating sites that each look fine alone. Do NOT produce a change that ordinary single-threaded use or the existing tests would expose at once.
3. Write a demonstration that FAILS with your change and PASSES without it: a new integration test file (e.g. tests/seeded_demo.rs) or a small example program. For a concurrency defect a stress test that fails in most runs is acceptable (state how often it failed in your runs); if the defect only exists under the language memory model (not on x86 hardware) or in a window too narrow to hit in reasonable time, say so, give the exact interleaving step by step instead, and still provide the best stress test you can.
4. Put your results into /tmp/seed-{pid}/out/ :
   - patch.diff  : `git -C /tmp/seed-{pid} diff -- src` containing ONLY the defect (no test code);
   - the demonstration file(s) (copy of the test/program);
   - NOTES.md : which property it breaks and why, what it needs in order to manifest (interleaving / input / fault), the exact commands you ran and their results with and without the change.
5. Leave the worktree with your change applied and the demo test present. Do not commit. Keep build output only under /tmp/seed-{pid}/target.

Work independently; do not ask questions. Finish with a short summary of the change (file:line, one paragraph) and how the demo behaved.""")
