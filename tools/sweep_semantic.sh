#!/bin/bash
M=/verif/tools/mutate_str.sh
L=/verif/work/sweep_semantic.log
: > $L
run() { $M "$@" 2>&1 | tee -a $L; }
run "pay_all skips helping slot" debt/mod.rs '.chain(core::iter::once(node.helping_slot()))' '.chain(core::iter::once(node.helping_slot()).take(0))' C01 C10
run "helper ignores active_addr" debt/helping.rs 'if active_addr != storage_addr {' 'if false && active_addr != storage_addr {' C12 C03
run "no dec after successful CAS" strategy/hybrid.rs '                T::dec(old.as_ptr());
' '' C02 C05 C14
run "attempt ignores changed confirm" strategy/hybrid.rs 'if ptr == confirm {' 'if ptr == confirm || true {' C01 C03
run "container Drop without wait_for_readers" lib.rs '            // To pay any possible debts
            self.strategy.wait_for_readers(ptr, &self.ptr);' '' C10 C01
run "into_inner without wait_for_readers" lib.rs '        // To pay all the debts
        unsafe { self.strategy.wait_for_readers(ptr, &self.ptr) };' '' C10 C01
run "rcu returns even if not swapped" lib.rs 'if swapped {' 'if swapped || true {' C06 C14
run "fallback keeps the debt" strategy/hybrid.rs 'Self::from_inner(unsafe { Self::new(candidate, Some(debt)).into_inner() })' 'unsafe { Self::new(candidate, Some(debt)) }' C02 C13 C01
run "store leaks the old value" lib.rs 'drop(self.swap(val));' 'mem::forget(self.swap(val));' C02 C04 C14
run "check_cooldown ignores active_writers" debt/list.rs 'if self.active_writers.load(SeqCst) == 0 {' 'if self.active_writers.load(SeqCst) == 0 || true {' C11 C01
run "Node::get never re-uses" debt/list.rs '.compare_exchange(NODE_UNUSED, NODE_USED, SeqCst, Relaxed)' '.compare_exchange(7, NODE_USED, SeqCst, Relaxed)' C11
run "LocalNode::drop does not release" debt/list.rs 'impl Drop for LocalNode {
    fn drop(&mut self) {
        if let Some(node) = self.node.get() {
            // Release - syncing writes/ownership of this Node
            node.start_cooldown();' 'impl Drop for LocalNode {
    fn drop(&mut self) {
        if let Some(node) = self.node.get() {
            let _ = node;' C11
run "Option::from_ptr without null test" ref_cnt.rs 'if ptr.is_null() {
            None' 'if false {
            None' C15 C14
run "Weak::as_ptr without dangling test" weak.rs 'fn as_ptr(me: &Self) -> *mut T {
        if Weak::ptr_eq(&Weak::new(), me) {' 'fn as_ptr(me: &Self) -> *mut T {
        if false {' C15
run "Weak::from_ptr without null test" weak.rs 'unsafe fn from_ptr(ptr: *const T) -> Self {
        if ptr.is_null() {
            Weak::new()' 'unsafe fn from_ptr(ptr: *const T) -> Self {
        if false {
            Weak::new()' C15
run "inc without clone" ref_cnt.rs 'Self::into_ptr(Self::clone(me))' 'Self::as_ptr(me)' C15 C14
run "Cache never revalidates" cache.rs 'if cached_ptr != shared_ptr {' 'if false {' C16
run "Cache always reloads (benign)" cache.rs 'if cached_ptr != shared_ptr {' 'if true {' C16
run "Serialize wraps in a newtype" serde.rs 'self.load().serialize(serializer)' 'serializer.serialize_newtype_struct("ArcSwap", &*self.load())' C20
run "Deserialize stores twice" serde.rs 'Ok(Self::from(T::deserialize(deserializer)?))' '{ let v = T::deserialize(deserializer)?; let r = Self::from(v.clone()); core::mem::forget(v); Ok(r) }' C20
run "unsafe impl Send for ArcSwapAny" lib.rs 'impl<T: RefCnt, S: Strategy<T>> Drop for ArcSwapAny<T, S> {' 'unsafe impl<T: RefCnt, S: Strategy<T>> Send for ArcSwapAny<T, S> {}
impl<T: RefCnt, S: Strategy<T>> Drop for ArcSwapAny<T, S> {' C19
run "PhantomData<T> -> PhantomData<T::Base>" lib.rs '_phantom_arc: PhantomData<T>,' '_phantom_arc: PhantomData<T::Base>,' C19
run "rw_lock CAS failure forgets inc" strategy/rw_lock.rs '            T::inc(&old);
' '' C14
run "4 fast slots (benign)" debt/fast.rs 'const DEBT_SLOT_CNT: usize = 8;' 'const DEBT_SLOT_CNT: usize = 4;' C01 C08 C10
run "16 fast slots (benign)" debt/fast.rs 'const DEBT_SLOT_CNT: usize = 8;' 'const DEBT_SLOT_CNT: usize = 16;' C01 C08 C10
run "load_full as load+clone (benign)" lib.rs 'Guard::into_inner(self.load())' 'T::clone(&self.load())' C01 C02 C14
echo DONE >> $L
