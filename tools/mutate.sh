#!/bin/bash
# usage: mutate.sh <name> <file under /repo/src> <sed-expr> <check ids...>
# Applies a one-off mutation to /repo's working tree, runs the given checks (quick tier), reverts.
name=$1; file=$2; expr=$3; shift 3
cd /repo || exit 2
if [ -n "$(git status --porcelain --untracked-files=no)" ]; then echo "/repo not clean"; exit 2; fi
before=$(md5sum src/$file | cut -c1-8)
sed -i "$expr" src/$file
after=$(md5sum src/$file | cut -c1-8)
if [ "$before" == "$after" ]; then echo "$name: MUTATION DID NOT APPLY"; exit 2; fi
if ! cargo build --offline -q 2>/tmp/mut-build.log; then echo "$name: does not compile"; head -20 /tmp/mut-build.log; git checkout -- .; exit 2; fi
for id in "$@"; do
  t0=$(date +%s.%N)
  out=$(cd /verif && ./run $id quick 2>&1)
  code=$?
  t1=$(date +%s.%N)
  line=$(echo "$out" | grep -E "^oracle|VIOLATION|held|inconclusive|KNOWN" | head -3 | cut -c1-260 | tr '\n' ' ')
  printf "%-34s %-4s exit=%d %5.1fs %s\n" "$name" "$id" "$code" "$(echo "$t1 - $t0" | bc)" "$line"
done
git checkout -- .
