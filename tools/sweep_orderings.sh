#!/bin/bash
# ordering-weakening sweep: every ordering site of the core algorithm, weakened one at a time
M=/verif/tools/mutate.sh
L=/verif/work/sweep_orderings.log
: > $L
run() { $M "$@" 2>&1 | tee -a $L; }
run "confirm SeqCst->Acquire"        strategy/hybrid.rs '54s/SeqCst/Acquire/' C01 C07
run "confirm SeqCst->Relaxed"        strategy/hybrid.rs '54s/SeqCst/Relaxed/' C01 C07
run "candidate SeqCst->Acquire(F3)"  strategy/hybrid.rs '90s/SeqCst/Acquire/' C01 C07
run "cas-weak SeqCst->AcqRel"        strategy/hybrid.rs '259s/SeqCst, Relaxed/AcqRel, Relaxed/' C01 C07 C05
run "cas-weak SeqCst->Release"       strategy/hybrid.rs '259s/SeqCst, Relaxed/Release, Relaxed/' C01 C07 C05
run "fast slot swap ->AcqRel"        debt/fast.rs '58s/SeqCst/AcqRel/' C01 C07
run "fast slot swap ->Release"       debt/fast.rs '58s/SeqCst/Release/' C01 C07
run "active_addr store ->Release"    debt/helping.rs '206s/SeqCst/Release/' C01 C12 C07
run "control swap(gen) ->AcqRel"     debt/helping.rs '212s/SeqCst/AcqRel/' C01 C07
run "help control load ->Acquire"    debt/helping.rs '225s/SeqCst/Acquire/' C01 C07
run "help active_addr load ->Acquire" debt/helping.rs '242s/SeqCst/Acquire/' C01 C12
run "help re-check control ->Relaxed" debt/helping.rs '245s/SeqCst/Relaxed/' C01 C12
run "their_space load ->Relaxed"     debt/helping.rs '266s/SeqCst/Relaxed/' C01 C07
run "my_space load ->Relaxed"        debt/helping.rs '268s/SeqCst/Relaxed/' C01 C07
run "handover store ->Relaxed"       debt/helping.rs '272s/SeqCst/Relaxed/' C01 C07 C03
run "help CAS ->AcqRel,Acquire"      debt/helping.rs '283s/SeqCst, SeqCst/AcqRel, Acquire/' C01 C07
run "help CAS ->Relaxed,Relaxed"     debt/helping.rs '283s/SeqCst, SeqCst/Relaxed, Relaxed/' C01 C07
run "space_offer store(help) ->Relaxed" debt/helping.rs '288s/SeqCst/Relaxed/' C01 C07
run "confirm slot swap ->AcqRel"     debt/helping.rs '315s/SeqCst/AcqRel/' C01 C07
run "confirm control swap ->AcqRel"  debt/helping.rs '320s/SeqCst/AcqRel/' C01 C07
run "confirm control swap ->Relaxed" debt/helping.rs '320s/SeqCst/Relaxed/' C01 C07
run "handover load ->Relaxed"        debt/helping.rs '328s/SeqCst/Relaxed/' C01 C07
run "space_offer store(confirm) ->Relaxed" debt/helping.rs '330s/SeqCst/Relaxed/' C01 C07
run "active_writers dec ->Relaxed"   debt/list.rs '59s/Release/Relaxed/' C11 C01 C07
run "LIST_HEAD load ->Acquire"       debt/list.rs '104s/SeqCst/Acquire/' C01 C11
run "LIST_HEAD load ->Relaxed"       debt/list.rs '104s/SeqCst/Relaxed/' C01 C11 C07
run "cooldown swap ->Relaxed"        debt/list.rs '120s/Release/Relaxed/' C11 C01 C07
run "check_cooldown writers load ->Relaxed"  debt/list.rs '150s/SeqCst/Relaxed/' C11 C01
run "reserve_writer ->Relaxed"       debt/list.rs '161s/SeqCst/Relaxed/' C11 C01
run "node claim CAS ->Relaxed"       debt/list.rs '177s/SeqCst, Relaxed/Relaxed, Relaxed/' C11 C01 C07
run "LIST_HEAD push CAS ->Relaxed"   debt/list.rs '204s/SeqCst, Relaxed/Relaxed, Relaxed/' C11 C01 C07
run "pay ->Release,Relaxed(F2)"      debt/mod.rs '103s/SeqCst, SeqCst/Release, Relaxed/' C01 C07
run "pay ->AcqRel,Acquire"           debt/mod.rs '103s/SeqCst, SeqCst/AcqRel, Acquire/' C01 C07
run "pay ->Relaxed,Relaxed"          debt/mod.rs '103s/SeqCst, SeqCst/Relaxed, Relaxed/' C01 C07
run "storage swap ->AcqRel"          lib.rs '480s/Ordering::SeqCst/Ordering::AcqRel/' C01 C07 C03
run "storage swap ->Release"         lib.rs '480s/Ordering::SeqCst/Ordering::Release/' C01 C07
echo DONE >> $L
