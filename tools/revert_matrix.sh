#!/bin/bash
# each fix commit reverted in the working tree: is the defect found again by the GENERATED tier alone
# (replay tier disabled) within the quick budget?  usage: revert_matrix.sh
L=/verif/work/revert_matrix.log; : > $L
cd /repo || exit 2
[ -z "$(git status --porcelain --untracked-files=no)" ] || { echo "/repo not clean"; exit 2; }
# $2 may list several commits (newest first) when a later repair touches the same lines
try() { name=$1; commit=$2; shift 2
  for c in $commit; do git revert -n $c >/dev/null 2>&1 || { echo "$name: cannot revert $c" | tee -a $L; git reset -q --hard HEAD; return; }; done
  for id in "$@"; do for sd in 1 2 3; do
    out=$(cd /verif && VCHECK_NO_REPLAYS=1 VERIF_SEED=$sd ./run $id quick 2>&1); code=$?
    printf "%-4s revert %s  %s seed=%d exit=%d %s\n" $name "$commit" $id $sd $code "$(echo "$out" | grep -E '^oracle|worker' | head -1 | cut -c1-100)" | tee -a $L
  done; done
  git reset -q --hard HEAD
}
if [ -n "$ONLY" ]; then eval "$ONLY"; echo DONE >> $L; exit 0; fi
try F9a 277f98b C12 C15
try F10 af89995 C13
try F8 159af49 C18
try F5b 09f9901 C18
try F7 77b1c92 C11
try F6 '159af49 cd1dceb' C18
try F4 5888b36 C12 C03
try F1 'af89995 06e11e6' C13
# F2 (f5f0f7f) no longer reverts cleanly after 277f98b: change the failure ordering of Debt::pay back by hand
# (compare_exchange(.., Release, Relaxed)) and run C01 C07 with VCHECK_NO_REPLAYS=1
try F3 390053c C01
echo DONE >> $L
