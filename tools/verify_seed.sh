#!/bin/bash
# usage: verify_seed.sh <worktree dir>   -- confirm: with the change the existing suite passes and the demo fails; without it the demo passes
d=$1
cd $d || exit 2
export CARGO_TARGET_DIR=$d/target CARGO_NET_OFFLINE=true
git diff -- src > out/patch.verify.diff
[ -s out/patch.verify.diff ] || { echo "$d: no source change"; exit 2; }
demo=$(ls tests | grep -v -E "^(random|stress)\.rs$" | sed 's/\.rs$//' | head -1)
echo "== $d demo=$demo"
timeout 1500 cargo test --workspace --no-fail-fast --offline > out/verify_with.log 2>&1
grep -E "^test result|Running|FAILED|failed" out/verify_with.log | grep -E "test result|Running" | paste - - | sed 's/Running//' | cut -c1-160
git apply -R out/patch.verify.diff || { echo "cannot revert"; exit 2; }
timeout 900 cargo test --offline --test $demo > out/verify_without.log 2>&1
echo "without the change: $(grep -E '^test result' out/verify_without.log)"
git apply out/patch.verify.diff
