#!/bin/bash
# usage: keep_seed.sh <worktree id e.g. C10> <seed dir name> <property> "<needs>" "<caught by>"
w=/tmp/seed-$1; name=$2; prop=$3; needs=$4; caught=$5
d=/verif/seeded/$name
mkdir -p $d
cp $w/out/patch.diff $d/patch.diff
for f in $w/out/*; do case "$f" in *patch*.diff|*verify*|*/target) ;; *) cp -r "$f" $d/ ;; esac; done
cp $w/out/verify_with.log $d/verify_with_change.log 2>/dev/null
cp $w/out/verify_without.log $d/verify_without_change.log 2>/dev/null
python3 - "$d" "$prop" "$needs" "$caught" <<'PY'
import json,sys,re,os
d,prop,needs,caught=sys.argv[1:5]
w=open(d+'/verify_with_change.log').read() if os.path.exists(d+'/verify_with_change.log') else ''
wo=open(d+'/verify_without_change.log').read() if os.path.exists(d+'/verify_without_change.log') else ''
res=[l for l in w.splitlines() if l.startswith('test result')]
json.dump({
 "breaks_property": prop,
 "origin": "written by an independent sub-agent that saw only the property text and a scratch worktree of /repo",
 "needs_to_manifest": needs,
 "confirmed_by_me": {
   "with_change: cargo test --workspace --no-fail-fast --offline": res,
   "without_change: cargo test --offline --test seeded_demo": [l for l in wo.splitlines() if l.startswith('test result')],
 },
 "checks_run_against_it": caught,
 "how_to_apply": "git -C /repo apply /verif/seeded/%s/patch.diff ; ./run <ID> quick ; git -C /repo checkout -- ." % os.path.basename(d)
}, open(d+'/meta.json','w'), indent=1)
PY
ls $d
