#!/bin/bash
# every check, quick tier, on the unchanged tree, for several VERIF_SEEDs: must be exit 0 and no VIOLATION
L=/verif/work/silence.log; : > $L
cd /verif
for sd in ${SEEDS:-1 2 3 4}; do
  for id in C01 C02 C03 C04 C05 C06 C07 C08 C09 C10 C11 C12 C13 C14 C15 C16 C17 C18 C19 C20; do
    t0=$(date +%s.%N); out=$(VERIF_SEED=$sd ./run $id quick 2>&1); code=$?; t1=$(date +%s.%N)
    printf "seed=%d %s exit=%d %5.1fs %s\n" $sd $id $code "$(echo "$t1 - $t0" | bc)" "$(echo "$out" | grep -E 'VIOLATION|inconclusive' | head -1 | cut -c1-150)" >> $L
  done
done
echo DONE >> $L
