#!/bin/bash
# regenerate every evidence file from the registered quick commands on the clean tree, validate
cd /verif || exit 2
[ -z "$(git -C /repo status --porcelain --untracked-files=no)" ] || { echo "/repo not clean"; exit 2; }
bad=0
for id in C01 C02 C03 C04 C05 C06 C07 C08 C09 C10 C11 C12 C13 C14 C15 C16 C17 C18 C19 C20; do
  out=$(./run $id ${1:-quick} 2>&1); code=$?
  echo "$id exit=$code $(echo "$out" | grep -E 'VIOLATION|held|inconclusive' | tail -1 | cut -c1-120)"
  [ $code -eq 0 ] || bad=1
done
python3-vt - <<'PY'
import json,jsonschema,glob
s=json.load(open('/root/.vp/EVIDENCE.schema.json'))
m=json.load(open('/verif/MANIFEST.json'))
lv={c['property_id']:c['level_claimed']['category'] for c in m['checks']}
for f in sorted(glob.glob('/verif/evidence/*.json')):
    e=json.load(open(f)); jsonschema.validate(e,s)
    assert e['level']==lv[e['property_id']], f
    assert e['coverage']['distinct_nontrivial']>=2 and len(e['coverage']['samples'])>=1, f
    assert e.get('violations',0)==0, f
print('all evidence files valid')
PY
exit $bad
