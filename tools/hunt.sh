#!/bin/bash
# exploratory hunt: E1 profiles with a high weight of role-triggered Stall schedules and large case counts
cd "$(dirname "${BASH_SOURCE[0]}")/.." || exit 2
mkdir -p work; L=work/hunt.log; : > $L
for id in ${IDS:-C12 C03 C01 C10 C02 C11 C06 C05 C18}; do
  for sd in ${SEEDS:-11 12}; do
    t0=$(date +%s); out=$(VERIF_SEED=$sd VCHECK_STALL_WEIGHT=${STALL:-20} VCHECK_CASES=${CASES:-1500000} VCHECK_NO_REPLAYS=1 ./run $id quick 2>&1); code=$?; t1=$(date +%s)
    printf "%s seed=%s exit=%d %ds %s\n" $id $sd $code $((t1-t0)) "$(echo "$out" | grep -E '^oracle|VIOLATION|inconclusive|held' | head -2 | cut -c1-220 | tr '\n' ' ')" >> $L
    [ $code -eq 1 ] && cp work/replays/*.json work/ 2>/dev/null
  done
done
echo DONE >> $L
