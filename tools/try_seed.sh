#!/bin/bash
# usage: try_seed.sh <patch file> <check ids...>  -- apply a seeded change to /repo, run checks (quick), undo
p=$1; shift
cd /repo || exit 2
if [ -n "$(git status --porcelain --untracked-files=no)" ]; then echo "/repo not clean"; exit 2; fi
git apply $p || { echo "patch does not apply"; exit 2; }
for id in "$@"; do
  t0=$(date +%s.%N)
  out=$(cd /verif && ./run $id quick 2>&1); code=$?
  t1=$(date +%s.%N)
  line=$(echo "$out" | grep -E "^oracle|VIOLATION|held|inconclusive|KNOWN|marker rule" | head -3 | cut -c1-330 | tr '\n' ' ')
  printf "%-4s exit=%d %5.1fs %s\n" "$id" "$code" "$(echo "$t1 - $t0" | bc)" "$line"
done
git checkout -- .
