#!/bin/bash
# usage: mutate_str.sh <name> <file under /repo/src> <old string> <new string> <check ids...>
name=$1; file=$2; old=$3; new=$4; shift 4
cd /repo || exit 2
if [ -n "$(git status --porcelain --untracked-files=no)" ]; then echo "/repo not clean"; exit 2; fi
python3 - "$file" "$old" "$new" <<'PY' || { echo "$name: MUTATION DID NOT APPLY"; exit 2; }
import sys
f,old,new=sys.argv[1:4]
p='/repo/src/'+f
s=open(p).read()
if s.count(old)<1: sys.exit(1)
open(p,'w').write(s.replace(old,new,1))
PY
if ! cargo build --offline -q --features weak,internal-test-strategies,serde 2>/tmp/mut-build.log; then echo "$name: does not compile"; grep -E "^error" -A6 /tmp/mut-build.log | head -12; git checkout -- .; exit 2; fi
for id in "$@"; do
  t0=$(date +%s.%N)
  out=$(cd /verif && ./run $id quick 2>&1); code=$?
  t1=$(date +%s.%N)
  line=$(echo "$out" | grep -E "^oracle|VIOLATION|held|inconclusive|KNOWN|marker rule|worker" | head -3 | cut -c1-230 | tr '\n' ' ')
  printf "%-40s %-4s exit=%d %5.1fs %s\n" "$name" "$id" "$code" "$(echo "$t1 - $t0" | bc)" "$line"
done
git checkout -- .
