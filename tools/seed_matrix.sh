#!/bin/bash
# every seeded change x its target check x several VERIF_SEEDs (detection stability)
L=/verif/work/seed_matrix.log; : > $L
cd /repo || exit 2
for d in /verif/seeded/S*/; do
  name=$(basename $d); prop=$(python3 -c "import json;print(json.load(open('$d/meta.json'))['breaks_property'])")
  git apply $d/patch.diff || { echo "$name: patch does not apply" | tee -a $L; continue; }
  for sd in 1 2 3; do
    t0=$(date +%s.%N); out=$(cd /verif && VERIF_SEED=$sd ./run $prop quick 2>&1); code=$?; t1=$(date +%s.%N)
    printf "%-48s %s seed=%d exit=%d %5.1fs %s\n" "$name" "$prop" "$sd" "$code" "$(echo "$t1 - $t0" | bc)" "$(echo "$out" | grep -E '^oracle|marker rule|worker' | head -1 | cut -c1-110)" | tee -a $L
  done
  git checkout -- .
done
echo DONE >> $L
