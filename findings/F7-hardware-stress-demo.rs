//! Demonstration for the seeded defect C11b.
//!
//! The node a thread borrows for one operation after its thread local storage is gone (an
//! operation performed from a thread-local destructor) is handed back for immediate reuse, without
//! waiting for the writers that are still walking through it. Every such borrowed node starts its
//! helping generation from scratch, so two successive operations on the same node are
//! indistinguishable for a writer that got stuck in between: it offers the value it loaded for
//! the first operation to the second one ‒ which may be loading from a completely different
//! `ArcSwap`.
//!
//! Black-box detection, using only the public API:
//!
//! * `EVEN` only ever contains even numbers, `ODD` only odd ones. A few threads keep storing new
//!   values into both.
//! * Reader threads perform loads from both *inside thread-local destructors*, arranged so that
//!   some of them run after the crate's own thread local is destroyed.
//! * The private fast slots of whatever node they get are kept occupied (guards of a third,
//!   never written `ArcSwap` are leaked there), so the loads go through the helping fallback.
//! * A load from `ODD` returning an even number (or the other way around) is a value that has
//!   never been stored there.
//!
//! (With values of two different types this would be a type confusion; the same type is used here
//! so the demonstration itself stays free of UB and can report what it saw.)

use std::sync::atomic::{AtomicBool, AtomicUsize, Ordering::SeqCst};
use std::sync::{Arc, LazyLock, Mutex};
use std::thread;
use std::time::{Duration, Instant};

use arc_swap::ArcSwap;

static EVEN: LazyLock<ArcSwap<usize>> = LazyLock::new(|| ArcSwap::from_pointee(0));
static ODD: LazyLock<ArcSwap<usize>> = LazyLock::new(|| ArcSwap::from_pointee(1));
/// Nobody stores into this one, so the debts of leaked guards stay in their slots for ever.
static FILLER: LazyLock<ArcSwap<usize>> = LazyLock::new(|| ArcSwap::from_pointee(0));

static STOP: AtomicBool = AtomicBool::new(false);
static LOADS: AtomicUsize = AtomicUsize::new(0);
static WRONG: Mutex<Vec<String>> = Mutex::new(Vec::new());

fn env(name: &str, default: u64) -> u64 {
    std::env::var(name)
        .ok()
        .and_then(|r| r.parse().ok())
        .unwrap_or(default)
}

/// Occupy the fast slots of the node(s) the current thread gets to use.
fn fill_fast_slots() {
    for _ in 0..16 {
        std::mem::forget(FILLER.load());
    }
}

fn check(name: &str, storage: &ArcSwap<usize>, parity: usize) {
    let value = **storage.load();
    if value % 2 != parity {
        STOP.store(true, SeqCst);
        WRONG.lock().unwrap().push(format!(
            "load from {} returned {}, which was never stored there",
            name, value
        ));
    }
}

/// Does the loads when dropped ‒ that is, from a thread-local destructor.
struct LoadOnDrop(&'static str);

impl Drop for LoadOnDrop {
    fn drop(&mut self) {
        let until = Instant::now() + Duration::from_millis(env("SEEDED_DEMO_SLICE_MS", 50));
        let mut cnt = 0;
        while !STOP.load(SeqCst) && Instant::now() < until {
            fill_fast_slots();
            for _ in 0..256 {
                check("ODD", &ODD, 1);
                check("EVEN", &EVEN, 0);
            }
            cnt += 512;
        }
        LOADS.fetch_add(cnt, SeqCst);
        let _ = self.0;
    }
}

thread_local! {
    // Destructors of thread locals run in the reverse order of their first use on the given
    // thread (or possibly in the same order on some platforms). One of these is touched before
    // the first use of the crate on the thread and the other after, so one of them is dropped
    // after the thread local of the crate is gone.
    static BEFORE: LoadOnDrop = LoadOnDrop("touched before arc-swap");
    static AFTER: LoadOnDrop = LoadOnDrop("touched after arc-swap");
}

fn reader() {
    BEFORE.with(|_| ());
    drop(EVEN.load());
    AFTER.with(|_| ());
    // ... and now the thread exits and the destructors run.
}

fn writer(storage: &ArcSwap<usize>, parity: usize) {
    let mut value = parity;
    while !STOP.load(SeqCst) {
        value += 2;
        storage.store(Arc::new(value));
    }
}

#[test]
fn load_during_thread_shutdown_returns_stored_value() {
    let cpus = thread::available_parallelism().map(|n| n.get()).unwrap_or(4);
    let writers = env("SEEDED_DEMO_WRITERS", (cpus as u64 / 4).clamp(1, 3));
    let readers = env("SEEDED_DEMO_READERS", 1);
    let deadline = Instant::now() + Duration::from_secs(env("SEEDED_DEMO_SECS", 10));

    let mut background = Vec::new();
    for _ in 0..writers {
        background.push(thread::spawn(|| writer(&EVEN, 0)));
        background.push(thread::spawn(|| writer(&ODD, 1)));
    }

    let mut reader_threads = 0;
    while !STOP.load(SeqCst) && Instant::now() < deadline {
        let batch = (0..readers)
            .map(|_| thread::spawn(reader))
            .collect::<Vec<_>>();
        for r in batch {
            r.join().unwrap();
            reader_threads += 1;
        }
    }

    STOP.store(true, SeqCst);
    for b in background {
        b.join().unwrap();
    }

    let wrong = WRONG.lock().unwrap();
    println!(
        "{} reader threads, {} loads from thread-local destructors, {} wrong",
        reader_threads,
        LOADS.load(SeqCst),
        wrong.len(),
    );
    assert!(wrong.is_empty(), "{}", wrong.join("\n"));
}
