//! R5 demo, no hooks: plain stress. One writer alternates stores into an ArcSwap<A> and an
//! ArcSwap<B> (same allocation size, so the allocator keeps handing the same few addresses to both
//! types); readers just load() from the ArcSwap<A>.  Every value is tagged with its type; the
//! destructors check the tag.
//!
//! cargo test --release --test r5_type_confusion_stress -- --ignored --nocapture
use arc_swap::ArcSwap;
use std::sync::atomic::{AtomicBool, AtomicUsize, Ordering::*};
use std::sync::Arc;
use std::time::{Duration, Instant};

const TAG_A: u64 = 0xAAAA_AAAA;
const TAG_B: u64 = 0xBBBB_BBBB;
static WRONG: AtomicUsize = AtomicUsize::new(0);

#[repr(C)]
struct A { tag: u64, pad: [u64; 3] }
#[repr(C)]
struct B { tag: u64, pad: [u64; 3] }
impl Drop for A {
    fn drop(&mut self) {
        let t = unsafe { std::ptr::read_volatile(&self.tag) };
        if t != TAG_A {
            WRONG.fetch_add(1, SeqCst);
            eprintln!("!!! A::drop on memory tagged {:#x} at {:p}", t, self);
            if std::env::var_os("R5_BT").is_some() {
                eprintln!("{}", std::backtrace::Backtrace::force_capture());
            }
        }
        unsafe { std::ptr::write_volatile(&mut self.tag, 0xDEAD) };
    }
}
impl Drop for B {
    fn drop(&mut self) {
        let t = unsafe { std::ptr::read_volatile(&self.tag) };
        if t != TAG_B {
            WRONG.fetch_add(1, SeqCst);
            eprintln!("!!! B::drop on memory tagged {:#x} at {:p}", t, self);
        }
        unsafe { std::ptr::write_volatile(&mut self.tag, 0xDEAD) };
    }
}

#[test]
#[ignore]
fn stress() {
    let secs: u64 = std::env::var("R5_SECS").ok().and_then(|s| s.parse().ok()).unwrap_or(60);
    let readers: usize = std::env::var("R5_READERS").ok().and_then(|s| s.parse().ok()).unwrap_or(6);
    let sa: &'static ArcSwap<A> = Box::leak(Box::new(ArcSwap::from_pointee(A { tag: TAG_A, pad: [0; 3] })));
    let sb: &'static ArcSwap<B> = Box::leak(Box::new(ArcSwap::from_pointee(B { tag: TAG_B, pad: [0; 3] })));
    let stop: &'static AtomicBool = Box::leak(Box::new(AtomicBool::new(false)));
    let loads: &'static AtomicUsize = Box::leak(Box::new(AtomicUsize::new(0)));
    let mut hs = Vec::new();
    for _ in 0..readers {
        hs.push(std::thread::spawn(move || {
            let mut n = 0usize;
            while !stop.load(Relaxed) {
                let g = sa.load();
                assert_eq!(unsafe { std::ptr::read_volatile(&g.tag) }, TAG_A, "load returned a non-A");
                drop(g);
                n += 1;
            }
            loads.fetch_add(n, Relaxed);
        }));
    }
    let w = std::thread::spawn(move || {
        let mut n = 0usize;
        while !stop.load(Relaxed) {
            sa.store(Arc::new(A { tag: TAG_A, pad: [0; 3] }));
            sb.store(Arc::new(B { tag: TAG_B, pad: [0; 3] }));
            n += 1;
        }
        n
    });
    let t0 = Instant::now();
    while t0.elapsed() < Duration::from_secs(secs) && WRONG.load(SeqCst) == 0 {
        std::thread::sleep(Duration::from_millis(100));
    }
    stop.store(true, SeqCst);
    let stores = w.join().unwrap();
    for h in hs { h.join().unwrap(); }
    println!("elapsed {:?}, store pairs {}, loads {}, wrong-type destructor runs {}",
        t0.elapsed(), stores, loads.load(SeqCst), WRONG.load(SeqCst));
    assert_eq!(0, WRONG.load(SeqCst), "a destructor ran on a value of the other type");
}
