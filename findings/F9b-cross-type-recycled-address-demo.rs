//! R2 / candidate C1: a debt that was never confirmed is matched by writers by ADDRESS ONLY. If a
//! writer of a completely unrelated `ArcSwap<B>` pays it, the reader "gives the reference back"
//! with `T::dec(ptr)` of ITS OWN type `A` (hybrid.rs:72 in the fast path, hybrid.rs:103 in the
//! fallback). If that is the last reference, `A`'s destructor + deallocation run on a `B`.
//!
//! Build with RUSTFLAGS="--cfg arc_swap_verif". The crate is NOT modified; the run-time hook of
//! the atomic shim is only used to park the reader thread at two source lines (it always returns
//! `None`, i.e. the real atomic operation is performed), which forces a thread interleaving the
//! OS scheduler can produce on its own.
#![cfg(arc_swap_verif)]

use std::cell::Cell;
use std::sync::atomic::{AtomicUsize, Ordering::SeqCst};
use std::sync::{Arc, Mutex};
use std::thread;

use arc_swap::verif::{install, Access, Op};
use arc_swap::ArcSwap;

// ---------------------------------------------------------------------------------------------
// Two unrelated pointee types of the same size (=> same malloc size class).
struct A {
    tag: u64,
}
struct B {
    tag: u64,
}

static LOG: Mutex<Vec<String>> = Mutex::new(Vec::new());
static A_DROP_ON_B: AtomicUsize = AtomicUsize::new(0);
static B_DROPS_OF_VICTIM: AtomicUsize = AtomicUsize::new(0);
const VICTIM: u64 = 0xB000_0001;

impl Drop for A {
    fn drop(&mut self) {
        LOG.lock()
            .unwrap()
            .push(format!("A::drop(self={:p}) sees tag {:#x}", self, self.tag));
        if self.tag >> 28 == 0xB {
            A_DROP_ON_B.fetch_add(1, SeqCst);
        }
    }
}
impl Drop for B {
    fn drop(&mut self) {
        LOG.lock()
            .unwrap()
            .push(format!("B::drop(self={:p}) sees tag {:#x}", self, self.tag));
        if self.tag == VICTIM {
            B_DROPS_OF_VICTIM.fetch_add(1, SeqCst);
        }
    }
}

// ---------------------------------------------------------------------------------------------
// Interleaving control.
thread_local! { static READER: Cell<bool> = Cell::new(false); }
static PHASE: AtomicUsize = AtomicUsize::new(0);
/// (file suffix, line) where the reader parks first / second.
static PARK: Mutex<[(&str, u32); 2]> = Mutex::new([("", 0), ("", 0)]);
static SERIAL: Mutex<()> = Mutex::new(());

fn wait_phase(p: usize) {
    while PHASE.load(SeqCst) != p {
        thread::yield_now();
    }
}

fn hook(a: &Access) -> Option<(usize, bool, usize)> {
    if !READER.try_with(|r| r.get()).unwrap_or(false) {
        return None;
    }
    let park = *PARK.lock().unwrap();
    let here = |i: usize| a.site.file().ends_with(park[i].0) && a.site.line() == park[i].1;
    match PHASE.load(SeqCst) {
        0 if here(0) => {
            eprintln!("  reader parked before {:?} at {}", a.op, a.site);
            PHASE.store(1, SeqCst);
            wait_phase(2);
        }
        2 if here(1) => {
            eprintln!("  reader parked before {:?} at {}", a.op, a.site);
            PHASE.store(3, SeqCst);
            wait_phase(4);
        }
        _ => (),
    }
    let _ = Op::Load;
    None // always perform the real operation
}

fn scenario(fill_fast_slots: bool, park: [(&'static str, u32); 2]) {
    let _g = SERIAL.lock().unwrap_or_else(|e| e.into_inner());
    LOG.lock().unwrap().clear();
    A_DROP_ON_B.store(0, SeqCst);
    B_DROPS_OF_VICTIM.store(0, SeqCst);
    *PARK.lock().unwrap() = park;
    PHASE.store(0, SeqCst);
    install(hook);

    let s1 = Arc::new(ArcSwap::new(Arc::new(A { tag: 0xA000_0001 })));
    let other = Arc::new(ArcSwap::from_pointee(0usize));
    let addr_a = Arc::as_ptr(&s1.load_full()) as usize;

    let reader = {
        let s1 = Arc::clone(&s1);
        let other = Arc::clone(&other);
        thread::spawn(move || {
            // Optionally use up the 8 fast slots, so the load below goes to the helping fallback.
            let _fill: Vec<_> = if fill_fast_slots {
                (0..8).map(|_| other.load()).collect()
            } else {
                Vec::new()
            };
            READER.with(|r| r.set(true));
            let g = s1.load();
            READER.with(|r| r.set(false));
            eprintln!("  reader: load returned tag {:#x}", g.tag);
            assert_eq!(g.tag, 0xA000_0002);
        })
    };

    // The reader has read the address of A#1 out of s1 and has not published its debt yet.
    wait_phase(1);
    // Writer 1: replace it. Nobody holds A#1 any more => destroyed and its memory freed.
    s1.store(Arc::new(A { tag: 0xA000_0002 }));
    // An unrelated value of an unrelated type gets the same address (same size class, LIFO
    // free list of the allocator) and is put into an unrelated container.
    let b = Arc::new(B { tag: VICTIM });
    let addr_b = Arc::as_ptr(&b) as usize;
    eprintln!("  A#1 lived at {addr_a:#x}, B#1 lives at {addr_b:#x}");
    assert_eq!(addr_a, addr_b, "allocator did not recycle the address; scenario not applicable");
    let s2 = ArcSwap::new(b);

    // Let the reader publish the (stale) address as a debt; it parks again before it finds out.
    PHASE.store(2, SeqCst);
    wait_phase(3);

    // Writer 2 (unrelated container, unrelated type) replaces B#1, finds a "debt" with its
    // address, pays it and drops its own reference. The only reference left is the reader's.
    s2.store(Arc::new(B { tag: 0xB000_0002 }));
    assert_eq!(0, B_DROPS_OF_VICTIM.load(SeqCst));

    PHASE.store(4, SeqCst);
    reader.join().unwrap();

    for l in LOG.lock().unwrap().iter() {
        eprintln!("  log: {l}");
    }
    let a_on_b = A_DROP_ON_B.load(SeqCst);
    let b_drops = B_DROPS_OF_VICTIM.load(SeqCst);
    eprintln!("  A::drop executed on a B: {a_on_b}; B::drop executed on B#1: {b_drops}");
    assert_eq!(
        (0, 1),
        (a_on_b, b_drops),
        "B#1 was destroyed and freed as if it was an A (type confusion)"
    );
}

/// Fast path: `HybridProtection::attempt`, hybrid.rs:47 .. :72
#[test]
fn fast_path() {
    eprintln!("fast path:");
    // park 1: before the scan of the fast slots (ptr already read at hybrid.rs:47)
    // park 2: before the confirming load of the storage
    scenario(false, [("src/debt/fast.rs", 54), ("src/strategy/hybrid.rs", 54)]);
}

/// Fallback: `HybridProtection::fallback`, hybrid.rs:90 .. :103
#[test]
fn fallback_path() {
    eprintln!("fallback path:");
    // park 1: before writing the candidate into the helping slot (helping.rs:315)
    // park 2: before closing the transaction (helping.rs:320)
    scenario(true, [("src/debt/helping.rs", 315), ("src/debt/helping.rs", 320)]);
}
