//! R1 demonstration: after the helping generation of a thread wraps around inside a *nested*
//! `LocalNode::with` (a writer performing loads on behalf of readers it helps), the node is only
//! given up (cooldown) when the outermost `with` returns. Until then further nested loads keep
//! using the same node and start re-using generations 6, 10, ... that the node has already used
//! at the start of this ownership period, without any cooldown in between. A writer that is still
//! inside the node with one of these generations then gets its compare_exchange on `control`
//! through and hands over a value loaded from a different storage (of a different type).
//!
//! The 2^62 - 2 (2^30 - 2 on 32bit) fallback loads between the first and the second use of the
//! generation are simulated with the `set_generation` test hook (this is the only "cheat"; the
//! state it produces is exactly the one the thread would be in after that many loads).
//!
//!   RUSTFLAGS="--cfg arc_swap_verif" CARGO_TARGET_DIR=/tmp/rev-R1/target/verif \
//!     cargo test --offline -j4 --test r1_wrap_nested_reuse -- --nocapture
#![cfg(arc_swap_verif)]

use std::cell::Cell;
use std::sync::atomic::{AtomicUsize, Ordering::SeqCst};
use std::sync::Arc;
use std::thread;
use std::time::Duration;

use arc_swap::verif::{self, Access};
use arc_swap::ArcSwap;

struct V1 {
    tag: usize,
}
struct V3 {
    tag: usize,
}

const ROLE_A: u32 = 1;
const ROLE_W: u32 = 2;
const ROLE_R3: u32 = 3;

thread_local! {
    static ROLE: Cell<u32> = Cell::new(0);
    static A_FALLBACKS: Cell<u32> = Cell::new(0);
}

static A_PARKED_1: AtomicUsize = AtomicUsize::new(0);
static A_GO_1: AtomicUsize = AtomicUsize::new(0);
static W_PARKED: AtomicUsize = AtomicUsize::new(0);
static W_GO: AtomicUsize = AtomicUsize::new(0);
static W_DONE: AtomicUsize = AtomicUsize::new(0);
static R3_PARKED: AtomicUsize = AtomicUsize::new(0);
static R3_GO: AtomicUsize = AtomicUsize::new(0);
static A_PARKED_3: AtomicUsize = AtomicUsize::new(0);
static A_GO_3: AtomicUsize = AtomicUsize::new(0);
static A_STEP: AtomicUsize = AtomicUsize::new(0);

fn wait(a: &AtomicUsize, v: usize) {
    while a.load(SeqCst) < v {
        thread::sleep(Duration::from_millis(1));
    }
}

fn hook(a: &Access) -> Option<(usize, bool, usize)> {
    let role = ROLE.try_with(|r| r.get()).unwrap_or(0);
    if role == 0 {
        return None;
    }
    let file = a.site.file();
    let line = a.site.line();
    // hybrid.rs:90 = `let candidate = storage.load(SeqCst);` in fallback, i.e. the generation is
    // in `control` already, the transaction is open.
    let in_fallback = file.ends_with("strategy/hybrid.rs") && line == 90;
    // helping.rs:281-283 = the compare_exchange of `who.control` from the generation to the
    // replacement in `help`.
    let help_cas = file.ends_with("debt/helping.rs") && (281..=283).contains(&line);
    match role {
        ROLE_A if in_fallback => {
            let n = A_FALLBACKS.with(|c| {
                c.set(c.get() + 1);
                c.get()
            });
            eprintln!(
                "A: fallback transaction #{} open, control of the node = {:#x}",
                n,
                verif::nodes()
                    .into_iter()
                    .find(|i| Some(i.addr) == verif::thread_node())
                    .unwrap()
                    .control
            );
            if n == 1 {
                A_PARKED_1.store(1, SeqCst);
                wait(&A_GO_1, 1);
            } else if n == 3 {
                A_PARKED_3.store(1, SeqCst);
                wait(&A_GO_3, 1);
            }
        }
        ROLE_W if help_cas => {
            eprintln!(
                "W: about to CAS control of A's node: expected {:#x} -> replacement {:#x}",
                a.a, a.b
            );
            W_PARKED.store(1, SeqCst);
            wait(&W_GO, 1);
            eprintln!("W: resumed, doing the CAS now");
        }
        ROLE_R3 if in_fallback => {
            R3_PARKED.fetch_add(1, SeqCst);
            wait(&R3_GO, 1);
        }
        _ => (),
    }
    None
}

fn leak<T>(t: T) -> &'static T {
    Box::leak(Box::new(t))
}

#[test]
fn wrap_nested_reuse() {
    verif::install(hook);
    let filler = leak(ArcSwap::from_pointee(0usize));
    let s1 = leak(ArcSwap::from_pointee(V1 { tag: 0x1111 }));
    let s3 = leak(ArcSwap::from_pointee(V3 { tag: 0x3333 }));

    // Thread A: owns one node for the whole test.
    let a = thread::spawn(move || {
        // All 8 fast slots taken -> every further load on this thread is a fallback one.
        let _guards = (0..8).map(|_| filler.load()).collect::<Vec<_>>();
        ROLE.with(|r| r.set(ROLE_A));
        // X1: first transaction of this thread, generation 4|GEN_TAG = 6, on storage s1.
        let v = s1.load();
        assert!(v.tag == 0x1111 || v.tag == 0x1112);
        drop(v);
        A_STEP.store(1, SeqCst);
        wait(&A_STEP, 2);
        // ... 2^62 - 2 further fallback loads later (no wrap yet, still the same node):
        assert!(verif::set_generation(0usize.wrapping_sub(4)));
        let node_before = verif::thread_node();
        // A store into s3, while two readers are in the middle of a fallback load from s3.
        s3.store(Arc::new(V3 { tag: 0x3334 }));
        eprintln!(
            "A: store done; node before {:?}, after {:?} (given up only now)",
            node_before,
            verif::thread_node()
        );
        ROLE.with(|r| r.set(0));
        A_STEP.store(3, SeqCst);
    });

    // A is inside X1 with control == 6 and active_addr == s1.
    wait(&A_PARKED_1, 1);
    // W: a writer on s1. Sees the generation in A's node, prepares a replacement (a V1 value!)
    // and is then preempted just before the compare_exchange on A's control.
    let w = thread::spawn(move || {
        ROLE.with(|r| r.set(ROLE_W));
        s1.store(Arc::new(V1 { tag: 0x1112 }));
        ROLE.with(|r| r.set(0));
        W_DONE.store(1, SeqCst);
    });
    wait(&W_PARKED, 1);
    // A finishes X1 on its own.
    A_GO_1.store(1, SeqCst);
    wait(&A_STEP, 1);

    // Two readers stuck in the middle of a fallback load from s3.
    let readers = (0..2)
        .map(|i| {
            thread::spawn(move || {
                let _guards = (0..8).map(|_| filler.load()).collect::<Vec<_>>();
                ROLE.with(|r| r.set(ROLE_R3));
                let v = s3.load();
                ROLE.with(|r| r.set(0));
                eprintln!(
                    "reader {}: s3.load() returned an object with tag {:#x}",
                    i, v.tag
                );
                v.tag
            })
        })
        .collect::<Vec<_>>();
    wait(&R3_PARKED, 2);

    // A stores into s3 -> helps both readers -> two nested fallback loads: generations 0|2 (the
    // wrap) and 4|2 = 6 (re-used, the node is still the same, no cooldown happened).
    A_STEP.store(2, SeqCst);
    // (If the defect is fixed, A never opens a third transaction on its node and just finishes.)
    while A_PARKED_3.load(SeqCst) == 0 && A_STEP.load(SeqCst) < 3 {
        thread::sleep(Duration::from_millis(1));
    }
    // W wakes up. Its expected value (6) is in A's control again.
    W_GO.store(1, SeqCst);
    wait(&W_DONE, 1);
    A_GO_3.store(1, SeqCst);
    a.join().unwrap();
    R3_GO.store(1, SeqCst);
    let tags = readers
        .into_iter()
        .map(|r| r.join().unwrap())
        .collect::<Vec<_>>();
    w.join().unwrap();
    for t in tags {
        assert!(
            t == 0x3333 || t == 0x3334,
            "load from s3 (ArcSwap<V3>) returned a V1 value (tag {:#x}) that has never been in s3",
            t
        );
    }
}
