//! Demo 1: `compare_and_swap(current: Guard<T>, new)` with a by-value `Guard` as `current`.
//!
//! If dropping that guard panics (it holds the last reference to a value whose destructor
//! panics), the already computed return value of `compare_and_swap` (another `Guard`, holding a
//! debt in a fast slot) is never dropped: the debt slot stays occupied for ever and the value it
//! points to is leaked once some writer "pays" the orphaned debt.
//!
//! Run: cargo test --offline --test demo1_cas_guard_by_value_panic -- --nocapture
//! (add RUSTFLAGS="--cfg arc_swap_verif" to also get the raw slot dump)

use std::panic::{catch_unwind, AssertUnwindSafe};
use std::sync::atomic::{AtomicBool, AtomicUsize, Ordering::SeqCst};
use std::sync::Arc;

use arc_swap::ArcSwap;

static DROPPED: [AtomicUsize; 16] = {
    #[allow(clippy::declare_interior_mutable_const)]
    const Z: AtomicUsize = AtomicUsize::new(0);
    [Z; 16]
};
static ARMED: AtomicBool = AtomicBool::new(false);

struct Val {
    id: usize,
    bomb: bool,
}

impl Drop for Val {
    fn drop(&mut self) {
        DROPPED[self.id].fetch_add(1, SeqCst);
        if self.bomb && ARMED.load(SeqCst) {
            panic!("destructor of value {} panics", self.id);
        }
    }
}

fn v(id: usize, bomb: bool) -> Arc<Val> {
    Arc::new(Val { id, bomb })
}

#[cfg(arc_swap_verif)]
fn occupied_slots() -> usize {
    arc_swap::verif::nodes()
        .iter()
        .map(|n| n.slots.iter().filter(|s| **s != 3).count())
        .sum()
}
#[cfg(not(arc_swap_verif))]
fn occupied_slots() -> usize {
    usize::MAX
}

fn scenario(by_value: bool) -> (usize, usize) {
    for d in DROPPED.iter() {
        d.store(0, SeqCst);
    }
    ARMED.store(true, SeqCst);
    let s = ArcSwap::new(v(1, true));
    // A guard on value 1 (debt in a fast slot).
    let g = s.load();
    // Value 1 is replaced; the writer pays the debt, `g` now owns the *last* reference to 1.
    s.store(v(2, false));
    assert_eq!(0, DROPPED[1].load(SeqCst));

    let r = catch_unwind(AssertUnwindSafe(|| {
        if by_value {
            // current (1) != stored (2): nothing is swapped, the result is a guard on 2.
            // `g` is consumed, dropped inside -> destructor of value 1 panics.
            let prev = s.compare_and_swap(g, v(3, false));
            drop(prev);
        } else {
            let prev = s.compare_and_swap(&g, v(3, false));
            drop(prev);
            drop(g);
        }
    }));
    assert!(r.is_err(), "the destructor of 1 must have panicked");
    ARMED.store(false, SeqCst);
    assert_eq!(1, DROPPED[1].load(SeqCst));
    assert_eq!(1, DROPPED[3].load(SeqCst), "rejected value released");

    let occupied = occupied_slots();
    // Everything the user holds is gone now; get rid of the container too.
    drop(s);
    (DROPPED[2].load(SeqCst), occupied)
}

#[test]
fn cas_guard_by_value_panic() {
    let (dropped2, occupied) = scenario(false);
    println!("by reference: value 2 dropped {}x, occupied debt slots afterwards: {}", dropped2, occupied as isize);
    assert_eq!(1, dropped2);

    let (dropped2, occupied) = scenario(true);
    println!("by value    : value 2 dropped {}x, occupied debt slots afterwards: {}", dropped2, occupied as isize);
    assert_eq!(
        1, dropped2,
        "LEAK: value 2 was never destroyed although the container and all guards are gone \
         (the returned guard was forgotten together with its debt)"
    );
}
