//! Review of 277f98b: debts of an Arc and of a Weak of one allocation must be kept apart.
//!
//! Public API only. Needs `--features weak`.
//!
//! The deterministic tests check the reference counts after every step; a wrong count is the
//! defect (the use after free is just its consequence), so they fail cleanly instead of crashing.
#![cfg(feature = "weak")]

use std::rc::{Rc, Weak as RcWeak};
use std::sync::atomic::{AtomicBool, Ordering};
use std::sync::{Arc, Weak};

use arc_swap::{ArcSwap, ArcSwapAny, ArcSwapOption, ArcSwapWeak};

// ---------------------------------------------------------------------------------------------
// Fast path (a guard sitting in one of the 8 fast slots), both directions.
// ---------------------------------------------------------------------------------------------

/// Guard of the Arc, writer replaces the Weak.
#[test]
fn fast_arc_guard_weak_writer() {
    let a = Arc::new(String::from("payload"));
    let strong = ArcSwap::new(Arc::clone(&a));
    let weak = ArcSwapWeak::new(Arc::downgrade(&a));
    assert_eq!((2, 1), (Arc::strong_count(&a), Arc::weak_count(&a)));

    let g = strong.load(); // debt on A, strong kind
    weak.store(Weak::new()); // must not touch g's debt
    assert_eq!(
        (2, 0),
        (Arc::strong_count(&a), Arc::weak_count(&a)),
        "the writer of the Weak paid a debt of the Arc guard with a weak count"
    );
    strong.store(Arc::new(String::from("other"))); // pays g's debt with a strong count
    assert_eq!((2, 0), (Arc::strong_count(&a), Arc::weak_count(&a)));
    assert_eq!("payload", **g);
    drop(g);
    assert_eq!((1, 0), (Arc::strong_count(&a), Arc::weak_count(&a)));
}

/// Guard of the Weak, writer replaces the Arc.
#[test]
fn fast_weak_guard_arc_writer() {
    let a = Arc::new(String::from("payload"));
    let strong = ArcSwap::new(Arc::clone(&a));
    let weak = ArcSwapWeak::new(Arc::downgrade(&a));

    let g = weak.load(); // debt on A, weak kind
    strong.store(Arc::new(String::from("other"))); // must not touch g's debt
    assert_eq!(
        (1, 1),
        (Arc::strong_count(&a), Arc::weak_count(&a)),
        "the writer of the Arc paid a debt of the Weak guard with a strong count"
    );
    drop(g);
    assert_eq!((1, 1), (Arc::strong_count(&a), Arc::weak_count(&a)));
    weak.store(Weak::new());
    assert_eq!((1, 0), (Arc::strong_count(&a), Arc::weak_count(&a)));
}

/// The same with the guard turned into a full value (`Guard::into_inner`, i.e. `load_full`'s way).
#[test]
fn fast_into_inner_both() {
    let a = Arc::new(7usize);
    let strong = ArcSwap::new(Arc::clone(&a));
    let weak = ArcSwapWeak::new(Arc::downgrade(&a));

    let gs = strong.load();
    let gw = weak.load();
    // Both writers run while both guards sit in the slots.
    weak.store(Arc::downgrade(&a));
    strong.store(Arc::clone(&a));
    // a, strong, gs (paid) / weak, gw (paid)
    assert_eq!((3, 2), (Arc::strong_count(&a), Arc::weak_count(&a)));
    let s = arc_swap::Guard::into_inner(gs);
    let w = arc_swap::Guard::into_inner(gw);
    assert_eq!((3, 2), (Arc::strong_count(&a), Arc::weak_count(&a)));
    drop((s, w));
    assert_eq!((2, 1), (Arc::strong_count(&a), Arc::weak_count(&a)));
}

// ---------------------------------------------------------------------------------------------
// ArcSwapOption + ArcSwapWeak (the tag is inherited by Option).
// ---------------------------------------------------------------------------------------------

#[test]
fn fast_option_arc_guard_weak_writer() {
    let a = Arc::new(1u8); // 1-aligned pointee on purpose
    let strong = ArcSwapOption::new(Some(Arc::clone(&a)));
    let weak = ArcSwapWeak::new(Arc::downgrade(&a));
    let g = strong.load();
    weak.store(Weak::new());
    assert_eq!((2, 0), (Arc::strong_count(&a), Arc::weak_count(&a)));
    strong.store(None);
    assert_eq!((2, 0), (Arc::strong_count(&a), Arc::weak_count(&a)));
    drop(g);
    assert_eq!((1, 0), (Arc::strong_count(&a), Arc::weak_count(&a)));
}

#[test]
fn fast_weak_guard_option_arc_writer() {
    let a = Arc::new(1u8);
    let strong = ArcSwapOption::new(Some(Arc::clone(&a)));
    let weak = ArcSwapWeak::new(Arc::downgrade(&a));
    let g = weak.load();
    strong.store(None);
    assert_eq!((1, 1), (Arc::strong_count(&a), Arc::weak_count(&a)));
    drop(g);
    assert_eq!((1, 1), (Arc::strong_count(&a), Arc::weak_count(&a)));
}

/// `Option<Weak<T>>` and `Option<Option<Arc<T>>>` are `RefCnt` too.
#[test]
fn fast_nested_options() {
    let a = Arc::new(());
    let strong: ArcSwapAny<Option<Option<Arc<()>>>> = ArcSwapAny::new(Some(Some(Arc::clone(&a))));
    let weak: ArcSwapAny<Option<Weak<()>>> = ArcSwapAny::new(Some(Arc::downgrade(&a)));
    let gs = strong.load();
    let gw = weak.load();
    weak.store(None);
    strong.store(None);
    assert_eq!((2, 1), (Arc::strong_count(&a), Arc::weak_count(&a)));
    drop(gs);
    assert_eq!((1, 1), (Arc::strong_count(&a), Arc::weak_count(&a)));
    drop(gw);
    assert_eq!((1, 0), (Arc::strong_count(&a), Arc::weak_count(&a)));
}

// ---------------------------------------------------------------------------------------------
// Rc and rc::Weak.
// ---------------------------------------------------------------------------------------------

#[test]
fn fast_rc_guard_rcweak_writer() {
    let a = Rc::new(String::from("payload"));
    let strong: ArcSwapAny<Rc<String>> = ArcSwapAny::new(Rc::clone(&a));
    let weak: ArcSwapAny<RcWeak<String>> = ArcSwapAny::new(Rc::downgrade(&a));
    let g = strong.load();
    weak.store(RcWeak::new());
    assert_eq!((2, 0), (Rc::strong_count(&a), Rc::weak_count(&a)));
    strong.store(Rc::new(String::from("other")));
    assert_eq!((2, 0), (Rc::strong_count(&a), Rc::weak_count(&a)));
    assert_eq!("payload", **g);
    drop(g);
    assert_eq!((1, 0), (Rc::strong_count(&a), Rc::weak_count(&a)));
}

#[test]
fn fast_rcweak_guard_rc_writer() {
    let a = Rc::new(String::from("payload"));
    let strong: ArcSwapAny<Rc<String>> = ArcSwapAny::new(Rc::clone(&a));
    let weak: ArcSwapAny<RcWeak<String>> = ArcSwapAny::new(Rc::downgrade(&a));
    let g = weak.load();
    strong.store(Rc::new(String::from("other")));
    assert_eq!((1, 1), (Rc::strong_count(&a), Rc::weak_count(&a)));
    drop(g);
    assert_eq!((1, 1), (Rc::strong_count(&a), Rc::weak_count(&a)));
}

// ---------------------------------------------------------------------------------------------
// Null pointers of the two kinds, dangling Weak, ZST / 1-aligned pointees: no token may be
// Debt::NONE (a debt that looks like an empty slot would be lost) and no debug assertion of the
// token may fire.
// ---------------------------------------------------------------------------------------------

#[test]
fn nulls_and_danglings() {
    struct Zst;
    let none: ArcSwapOption<Zst> = ArcSwapOption::empty();
    let dangling: ArcSwapWeak<Zst> = ArcSwapWeak::new(Weak::new());
    let opt_dangling: ArcSwapAny<Option<Weak<Zst>>> = ArcSwapAny::new(Some(Weak::new()));
    let opt_none: ArcSwapAny<Option<Weak<Zst>>> = ArcSwapAny::new(None);

    // More than 8 guards so the fallback is exercised too.
    let mut guards_a = Vec::new();
    let mut guards_b = Vec::new();
    let mut guards_c = Vec::new();
    for _ in 0..6 {
        guards_a.push(none.load());
        guards_b.push(dangling.load());
        guards_c.push(opt_dangling.load());
        guards_c.push(opt_none.load());
    }
    // Writers on nulls of both kinds while null debts of both kinds exist.
    let z = Arc::new(Zst);
    none.store(Some(Arc::clone(&z)));
    dangling.store(Arc::downgrade(&z));
    opt_dangling.store(None);
    opt_none.store(Some(Arc::downgrade(&z)));
    assert!(guards_a.iter().all(|g| g.is_none()));
    assert!(guards_b.iter().all(|g| g.upgrade().is_none()));
    drop((guards_a, guards_b, guards_c));
    assert_eq!((2, 2), (Arc::strong_count(&z), Arc::weak_count(&z)));
    // and back
    let g1 = none.load();
    let g2 = dangling.load();
    let g3 = opt_none.load();
    none.store(None);
    dangling.store(Weak::new());
    opt_none.store(None);
    assert_eq!((2, 2), (Arc::strong_count(&z), Arc::weak_count(&z)));
    drop((g1, g2, g3));
    assert_eq!((1, 0), (Arc::strong_count(&z), Arc::weak_count(&z)));
}

/// Pointees with alignment 1, 2 and a big one: the data pointer of an `Arc` is aligned at least
/// like `usize`, so the tag bits are free.
#[test]
fn alignments() {
    #[repr(align(64))]
    struct Big(u8);
    #[repr(packed)]
    #[allow(dead_code)]
    struct Packed(u8, u16);
    fn check<T>(v: T) {
        let a = Arc::new(v);
        assert_eq!(0, Arc::as_ptr(&a) as usize % std::mem::align_of::<usize>());
        let strong = ArcSwap::new(Arc::clone(&a));
        let weak = ArcSwapWeak::new(Arc::downgrade(&a));
        let gs = strong.load();
        let gw = weak.load();
        weak.store(Weak::new());
        strong.store(Arc::clone(&a));
        assert_eq!((3, 1), (Arc::strong_count(&a), Arc::weak_count(&a)));
        drop(gs);
        drop(gw);
        assert_eq!((2, 0), (Arc::strong_count(&a), Arc::weak_count(&a)));
    }
    check(());
    check(1u8);
    check(1u16);
    check([0u8; 3]);
    check(Packed(1, 2));
    check(Big(1));
}

// ---------------------------------------------------------------------------------------------
// Helping path (the guard is in the helping slot only between confirm_helping and the pay inside
// into_inner, hybrid.rs:94-97), so this needs a real race. The reader keeps the 8 fast slots
// occupied and loads in a loop; the writer keeps replacing the value of the *other* kind.
// Every mismatch moves one count from one kind to the other for good, so the totals at the end
// tell.
// ---------------------------------------------------------------------------------------------

#[cfg(not(miri))]
const ITERS: usize = 3_000_000;
#[cfg(miri)]
const ITERS: usize = 60;

/// Sets the flag when dropped (also during a panic, so the other thread does not spin for ever).
struct SetOnDrop<'a>(&'a AtomicBool);
impl Drop for SetOnDrop<'_> {
    fn drop(&mut self) {
        self.0.store(true, Ordering::SeqCst);
    }
}

/// Extra owners of both kinds, so a miscount is seen as a wrong number and not as a crash.
fn cushion<T>(a: &Arc<T>) -> (Vec<Arc<T>>, Vec<Weak<T>>) {
    (
        (0..CUSHION).map(|_| Arc::clone(a)).collect(),
        (0..CUSHION).map(|_| Arc::downgrade(a)).collect(),
    )
}
const CUSHION: usize = 64;

#[test]
fn helping_arc_reader_weak_writer() {
    let a = Arc::new(String::from("payload"));
    let _cushion = cushion(&a);
    let strong = ArcSwap::new(Arc::clone(&a));
    let weak = ArcSwapWeak::new(Arc::downgrade(&a));
    let filler = ArcSwap::from_pointee(0usize);
    let stop = AtomicBool::new(false);
    std::thread::scope(|s| {
        s.spawn(|| {
            let _stop = SetOnDrop(&stop);
            let _fill: Vec<_> = (0..8).map(|_| filler.load()).collect();
            for i in 0..ITERS {
                let g = strong.load(); // always the fallback
                assert_eq!("payload", **g);
                // Only this thread touches the strong count: a, the container, the guard (the
                // fallback always returns a fully owned value).
                assert_eq!(
                    CUSHION + 3,
                    Arc::strong_count(&a),
                    "strong count went wrong in iteration {}",
                    i
                );
            }
        });
        s.spawn(|| {
            while !stop.load(Ordering::SeqCst) {
                weak.store(Arc::downgrade(&a));
            }
        });
    });
    assert_eq!(
        (CUSHION + 2, CUSHION + 1),
        (Arc::strong_count(&a), Arc::weak_count(&a))
    );
}

#[test]
fn helping_weak_reader_arc_writer() {
    let a = Arc::new(String::from("payload"));
    let _cushion = cushion(&a);
    let strong = ArcSwap::new(Arc::clone(&a));
    let weak = ArcSwapWeak::new(Arc::downgrade(&a));
    let filler = ArcSwap::from_pointee(0usize);
    let stop = AtomicBool::new(false);
    std::thread::scope(|s| {
        s.spawn(|| {
            let _stop = SetOnDrop(&stop);
            let _fill: Vec<_> = (0..8).map(|_| filler.load()).collect();
            for i in 0..ITERS {
                let g = weak.load(); // always the fallback
                assert_eq!(Arc::as_ptr(&a), Weak::as_ptr(&g));
                // Only this thread touches the weak count: the container and the guard.
                assert_eq!(
                    CUSHION + 2,
                    Arc::weak_count(&a),
                    "weak count went wrong in iteration {}",
                    i
                );
            }
        });
        s.spawn(|| {
            while !stop.load(Ordering::SeqCst) {
                strong.store(Arc::clone(&a));
            }
        });
    });
    assert_eq!(
        (CUSHION + 2, CUSHION + 1),
        (Arc::strong_count(&a), Arc::weak_count(&a))
    );
}

#[test]
fn helping_option_arc_and_weak_both_ways() {
    let a = Arc::new(1u8);
    let _cushion = cushion(&a);
    let strong = ArcSwapOption::new(Some(Arc::clone(&a)));
    let weak = ArcSwapWeak::new(Arc::downgrade(&a));
    let filler = ArcSwap::from_pointee(0usize);
    let stop = AtomicBool::new(false);
    std::thread::scope(|s| {
        // reader of both, everything through the fallback
        s.spawn(|| {
            let _stop = SetOnDrop(&stop);
            let _fill: Vec<_> = (0..8).map(|_| filler.load()).collect();
            for _ in 0..ITERS {
                let g = strong.load();
                assert!(g.is_some());
                drop(g);
                let g = weak.load();
                drop(g);
            }
        });
        s.spawn(|| {
            while !stop.load(Ordering::SeqCst) {
                weak.store(Arc::downgrade(&a));
                strong.store(Some(Arc::clone(&a)));
            }
        });
    });
    assert_eq!(
        (CUSHION + 2, CUSHION + 1),
        (Arc::strong_count(&a), Arc::weak_count(&a))
    );
}

/// Mixed: fast and helping paths, guards kept for a while, both kinds, several threads.
#[test]
fn mixed_stress() {
    let a = Arc::new(String::from("payload"));
    let b = Arc::new(String::from("payload"));
    let _cushion = (cushion(&a), cushion(&b));
    let strong = ArcSwap::new(Arc::clone(&a));
    let weak = ArcSwapWeak::new(Arc::downgrade(&a));
    let stop = AtomicBool::new(false);
    std::thread::scope(|s| {
        for t in 0..2 {
            let (strong, weak, stop) = (&strong, &weak, &stop);
            s.spawn(move || {
                let _stop = SetOnDrop(stop);
                let mut kept_s = Vec::new();
                let mut kept_w = Vec::new();
                for i in 0..ITERS / 4 {
                    kept_s.push(strong.load());
                    kept_w.push(weak.load());
                    assert_eq!("payload", ***kept_s.last().unwrap());
                    if let Some(up) = kept_w.last().unwrap().upgrade() {
                        assert_eq!("payload", *up);
                    }
                    if kept_s.len() > (i + t) % 7 {
                        kept_s.clear();
                        kept_w.clear();
                    }
                }
            });
        }
        s.spawn(|| {
            let mut i = 0usize;
            while !stop.load(Ordering::SeqCst) {
                let x = if i % 2 == 0 { &a } else { &b };
                weak.store(Arc::downgrade(x));
                strong.store(Arc::clone(x));
                i += 1;
            }
        });
    });
    strong.store(Arc::new(String::new()));
    weak.store(Weak::new());
    assert_eq!(
        (CUSHION + 1, CUSHION),
        (Arc::strong_count(&a), Arc::weak_count(&a))
    );
    assert_eq!(
        (CUSHION + 1, CUSHION),
        (Arc::strong_count(&b), Arc::weak_count(&b))
    );
}
