//! Demonstration for the seeded change in `HybridProtection::attempt` (src/strategy/hybrid.rs).
//!
//! Property: a load returns a value that was stored *in the container it was called on* at some
//! instant during the call. It never returns the value of another container.
//!
//! Several containers of the same type are overwritten all the time with fresh `Arc`s. Every value
//! carries the index of the only container it is ever stored into. The writers alternate between
//! the containers, so the allocation released by a store into one container is reused (the
//! allocator hands the most recently freed block back to the same thread) for the value stored
//! into the next one ‒ addresses travel between the containers quickly.
//!
//! The readers load from "their" container and check the tag. There are many more readers than
//! CPUs, so they get preempted in the middle of loads now and then, which is what is needed to get
//! the address recycled between the first read of the pointer and the write of the debt.
//!
//! Tunables (environment): DEMO_SECS (default 60), DEMO_CONTAINERS (4), DEMO_WRITERS (CPUs / 2),
//! DEMO_READERS (2 × CPUs). Together that is more runnable threads than CPUs on purpose.

use std::sync::atomic::{AtomicBool, AtomicUsize, Ordering};
use std::sync::Arc;
use std::thread;
use std::time::{Duration, Instant};

use arc_swap::ArcSwap;

struct Tagged {
    /// Index of the only container this value is ever stored into.
    owner: usize,
    /// Just some payload to make it a bit more real.
    seq: usize,
}

fn env(name: &str, default: usize) -> usize {
    std::env::var(name)
        .ok()
        .and_then(|v| v.parse().ok())
        .unwrap_or(default)
}

#[test]
fn load_never_returns_value_of_another_container() {
    let cpus = num_cpus::get();
    let secs = env("DEMO_SECS", 60) as u64;
    let container_cnt = env("DEMO_CONTAINERS", 4);
    let writer_cnt = env("DEMO_WRITERS", (cpus / 2).max(2));
    let reader_cnt = env("DEMO_READERS", 2 * cpus);

    let containers: Arc<Vec<ArcSwap<Tagged>>> = Arc::new(
        (0..container_cnt)
            .map(|owner| ArcSwap::from_pointee(Tagged { owner, seq: 0 }))
            .collect(),
    );
    let stop = Arc::new(AtomicBool::new(false));
    let foreign = Arc::new(AtomicUsize::new(0));
    let loads = Arc::new(AtomicUsize::new(0));
    let detail = Arc::new(std::sync::Mutex::new(None::<String>));

    let mut threads = Vec::new();

    for w in 0..writer_cnt {
        let containers = Arc::clone(&containers);
        let stop = Arc::clone(&stop);
        threads.push(thread::spawn(move || {
            let mut seq = 0;
            let mut i = w % containers.len();
            while !stop.load(Ordering::Relaxed) {
                seq += 1;
                // The old value is released inside of the store, the very next allocation on this
                // thread (for the *next* container) is likely to get the same address.
                containers[i].store(Arc::new(Tagged { owner: i, seq }));
                i = (i + 1) % containers.len();
            }
        }));
    }

    for r in 0..reader_cnt {
        let containers = Arc::clone(&containers);
        let stop = Arc::clone(&stop);
        let foreign = Arc::clone(&foreign);
        let loads = Arc::clone(&loads);
        let detail = Arc::clone(&detail);
        threads.push(thread::spawn(move || {
            let mine = r % containers.len();
            let mut cnt = 0usize;
            while !stop.load(Ordering::Relaxed) {
                for _ in 0..1000 {
                    // Alternate the guard and the full load, both go through the same path.
                    let (owner, seq) = if r % 2 == 0 {
                        let g = containers[mine].load();
                        (g.owner, g.seq)
                    } else {
                        let v = containers[mine].load_full();
                        (v.owner, v.seq)
                    };
                    cnt += 1;
                    if owner != mine {
                        foreign.fetch_add(1, Ordering::Relaxed);
                        let mut d = detail.lock().unwrap();
                        if d.is_none() {
                            *d = Some(format!(
                                "reader {} loading from container {} got a value of container {} (seq {})",
                                r, mine, owner, seq
                            ));
                        }
                        stop.store(true, Ordering::Relaxed);
                        break;
                    }
                }
            }
            loads.fetch_add(cnt, Ordering::Relaxed);
        }));
    }

    let start = Instant::now();
    while start.elapsed() < Duration::from_secs(secs) && !stop.load(Ordering::Relaxed) {
        thread::sleep(Duration::from_millis(50));
    }
    stop.store(true, Ordering::Relaxed);
    for t in threads {
        t.join().unwrap();
    }

    let foreign = foreign.load(Ordering::Relaxed);
    eprintln!(
        "{} loads in {:?}, {} foreign values",
        loads.load(Ordering::Relaxed),
        start.elapsed(),
        foreign
    );
    assert_eq!(
        0,
        foreign,
        "load returned a value that was never stored in the container: {}",
        detail.lock().unwrap().clone().unwrap_or_default()
    );
}
