//! Demo 3: the same allocation referenced from an `ArcSwap<T>` (strong) and an `ArcSwapWeak<T>`
//! (weak). Debts are matched by the address only, the address of `Arc<T>` and of the `Weak<T>`
//! made from it is the same, but they count in *different* counters. A writer of the weak
//! container "pays" the debt of a `Guard<Arc<T>>` with a weak count; the guard is unprotected from
//! then on and the value is destroyed under it.
//!
//! Single thread, no race, no address reuse needed.
//!
//! Run: cargo test --offline --features weak --test demo3_arc_and_weak_same_object -- --nocapture
//! Miri: cargo +nightly miri test --offline --features weak --test demo3_arc_and_weak_same_object
#![cfg(feature = "weak")]

use std::sync::atomic::{AtomicUsize, Ordering::SeqCst};
use std::sync::{Arc, Weak};

use arc_swap::{ArcSwap, ArcSwapWeak};

static DROPPED: AtomicUsize = AtomicUsize::new(0);

struct Val(String);
impl Drop for Val {
    fn drop(&mut self) {
        DROPPED.fetch_add(1, SeqCst);
    }
}

#[test]
fn guard_of_arc_paid_by_weak_writer() {
    let a = Arc::new(Val(String::from("hello")));
    let strong = ArcSwap::new(Arc::clone(&a));
    let weak = ArcSwapWeak::new(Arc::downgrade(&a));
    drop(a);

    // A guard with a debt (owes one *strong* count) on the address of the value.
    let g = strong.load();
    assert_eq!((1, 1), (Arc::strong_count(&g), Arc::weak_count(&g)));

    // The weak container replaces its pointer to the same allocation. Its writer walks the debts,
    // finds the one above (same address) and pays it - with a *weak* count.
    weak.store(Weak::new());
    println!(
        "after weak.store: strong = {}, weak = {} (the weak one was given up, yet there is still 1)",
        Arc::strong_count(&g),
        Arc::weak_count(&g)
    );

    // Now the strong container replaces the value. The debt is gone, nobody protects the guard.
    strong.store(Arc::new(Val(String::from("other"))));
    let dropped = DROPPED.load(SeqCst);
    println!("value destroyed {}x while a Guard to it is alive", dropped);
    if cfg!(miri) {
        // Let Miri see the access to the destroyed String through the guard.
        println!("{}", g.0);
    }
    assert_eq!(0, dropped, "USE AFTER FREE: the value was destroyed under a live Guard");
}

/// The other direction: a `Guard<Weak<T>>` whose debt is paid by the writer of the strong
/// container with a *strong* count. The guard gives back a weak count it never got, the
/// allocation is released while the user still holds an `Arc` to it (and the value is leaked).
#[test]
fn guard_of_weak_paid_by_arc_writer() {
    let a = Arc::new(Val(String::from("hello")));
    let strong = ArcSwap::new(Arc::clone(&a));
    let weak = ArcSwapWeak::new(Arc::downgrade(&a));
    assert_eq!((2, 1), (Arc::strong_count(&a), Arc::weak_count(&a)));

    let g = weak.load(); // owes one weak count
    strong.store(Arc::new(Val(String::from("other")))); // pays it with a strong count
    println!(
        "after strong.store: strong = {} (should be 1: only `a`), weak = {}",
        Arc::strong_count(&a),
        Arc::weak_count(&a)
    );
    drop(g); // "the debt was paid for me" -> Weak::dec
    println!(
        "after drop(guard): strong = {}, weak = {} (should be 1: the one inside `weak`)",
        Arc::strong_count(&a),
        Arc::weak_count(&a)
    );
    let leaked_strong = Arc::strong_count(&a) == 2;
    let lost_weak = Arc::weak_count(&a) == 0;
    if cfg!(miri) {
        // Gives up the last weak count -> the allocation is released, `a` dangles.
        weak.store(Weak::new());
        println!("{}", a.0);
    }
    assert!(
        !leaked_strong && !lost_weak,
        "COUNT MIX-UP: strong count leaked: {}, weak count lost: {}",
        leaked_strong,
        lost_weak
    );
}
